#!/bin/bash
# Build the overlay and the worker binary from /repo's current working tree.
# usage: build.sh <scratch-dir> [race]
set -e
export GOTOOLCHAIN=local GOFLAGS=-mod=mod GOPROXY=off GOCACHE=/verif/.gocache
GO=/root/go/pkg/mod/golang.org/toolchain@v0.0.1-go1.25.0.linux-amd64/bin/go
if [ ! -x "$GO" ]; then GO=go1.26.8; fi
SCR="$1"; RACE="$2"
REPO="${VERIF_REPO:-/repo}"
mkdir -p "$SCR" /verif/bin
if [ ! -x /verif/bin/ovgen ] || [ /verif/cmd/ovgen/main.go -nt /verif/bin/ovgen ]; then
  (cd /verif && $GO build -o /verif/bin/ovgen ./cmd/ovgen)
fi
/verif/bin/ovgen -repo "$REPO" -shim /verif/shim -out "$SCR/ov"
cd /verif/harness
if [ "$RACE" = race ]; then
  $GO test -c -race -overlay "$SCR/ov/overlay.json" -tags verif -vet=off -o "$SCR/harness.race.test" .
else
  $GO test -c -overlay "$SCR/ov/overlay.json" -tags verif -vet=off -o "$SCR/harness.test" .
fi
