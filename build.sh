#!/bin/bash
# Build the overlay and the worker binary from the repository's current
# working tree. usage: build.sh <scratch-dir> [race]
set -e
HERE="$(cd "$(dirname "${BASH_SOURCE[0]}")" && pwd)"
export GOTOOLCHAIN=local GOFLAGS=-mod=mod GOPROXY=off GOCACHE="${VERIF_GOCACHE:-/verif/.gocache}"
GO="${VERIF_GO:-/root/go/pkg/mod/golang.org/toolchain@v0.0.1-go1.25.0.linux-amd64/bin/go}"
if [ ! -x "$GO" ]; then GO=go1.26.8; fi
SCR="$1"; RACE="$2"
REPO="${VERIF_REPO:-/repo}"
mkdir -p "$SCR"
(cd "$HERE" && $GO build -o "$SCR/ovgen" ./cmd/ovgen)
"$SCR/ovgen" -repo "$REPO" -shim "$HERE/shim" -out "$SCR/ov"
# The worker module is copied next to a go.mod whose replace points at the
# repository under test.
mkdir -p "$SCR/h"
cp "$HERE"/harness/*.go "$SCR/h/"
cp "$REPO/go.sum" "$SCR/h/go.sum"
cat "$HERE/harness/go.sum.extra" >> "$SCR/h/go.sum" 2>/dev/null || true
sed "s#=> /repo#=> $REPO#" "$HERE/harness/go.mod" > "$SCR/h/go.mod"
cd "$SCR/h"
if [ "$RACE" = race ]; then
  $GO test -c -race -overlay "$SCR/ov/overlay.json" -tags verif -vet=off -o "$SCR/harness.race.test" .
else
  $GO test -c -overlay "$SCR/ov/overlay.json" -tags verif -vet=off -o "$SCR/harness.test" .
fi
