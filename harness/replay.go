package harness

import (
	"encoding/json"
	"fmt"
	"os"
)

// replayFile re-executes a replay artefact written by vcheck and reports
// whether the violation reproduces.
type replayDoc struct {
	Property  string     `json:"property"`
	Violation *Violation `json:"violation"`
}

type replaySpec struct {
	Engine   string `json:"engine"`
	Scenario string `json:"scenario"`
	Config   Config `json:"config"`
	Preamble []Op   `json:"preamble"`
	Ops      []Op   `json:"ops"`
	FailedAt int    `json:"failed_at"`
	CrashAt  int    `json:"crash_before_mutation"`
	Torn     int    `json:"torn_bytes"`
}

func runReplay(c *Collector, path string) {
	data, err := os.ReadFile(path)
	if err != nil {
		c.res.InfraError = err.Error()
		return
	}
	var doc replayDoc
	if err := json.Unmarshal(data, &doc); err != nil {
		c.res.InfraError = err.Error()
		return
	}
	raw, _ := json.Marshal(doc.Violation.Replay)
	var spec replaySpec
	if err := json.Unmarshal(raw, &spec); err != nil {
		c.res.InfraError = err.Error()
		return
	}
	prop := doc.Property
	switch spec.Engine {
	case "S":
		sc := findSeqScenario(prop, spec)
		if sc == nil {
			c.res.InfraError = "no scenario for replay"
			return
		}
		v, at, w := sc.runHistory(spec.Ops, c)
		c.res.Evaluations++
		if w != nil {
			w.Close()
		}
		if v != nil && sc.owns(v) {
			v.Property = prop
			v.History = opsString(append(append([]Op{}, spec.Preamble...), spec.Ops...))
			applyFlags(w, v)
			v.Replay = doc.Violation.Replay
			c.violation(v, at)
		}
	case "X":
		sc := &CrashScenario{Prop: prop, Name: spec.Scenario, Cfg: spec.Config, Preamble: spec.Preamble}
		if prop == "C07" {
			sc.Oracles = []string{"fsck"}
		}
		if prop == "C09" {
			sc.Recover = recoverC09
		}
		if prop == "C10" {
			sc.Recover = recoverC10
		}
		sc.only = &spec
		sc.crashHistory(spec.Ops, c, map[[40]byte]struct{}{})
	default:
		c.res.InfraError = fmt.Sprintf("replay of engine %q not supported here", spec.Engine)
	}
}

func findSeqScenario(prop string, spec replaySpec) *SeqScenario {
	var scs []*SeqScenario
	for _, tier := range []string{"quick", "thorough"} {
		switch prop {
		case "C01":
			scs = append(scs, c01Scenarios(tier)...)
		case "C02":
			scs = append(scs, c02Scenarios(tier)...)
		case "C04", "C07", "C13":
			scs = append(scs, gcScenarios(prop, tier)...)
		case "C11":
			scs = append(scs, c11Scenarios(tier)...)
		}
	}
	for _, sc := range scs {
		if sc.Name == spec.Scenario && sc.Cfg == spec.Config && opsString(sc.Preamble) == opsString(spec.Preamble) {
			return sc
		}
	}
	return nil
}
