package harness

import (
	"encoding/json"
	"fmt"
	"os"
	"testing"
)

// replayFile re-executes a replay artefact written by vcheck and reports
// whether the violation reproduces.
type replayDoc struct {
	Property  string     `json:"property"`
	Violation *Violation `json:"violation"`
}

type replaySpec struct {
	Engine   string `json:"engine"`
	Scenario string `json:"scenario"`
	Config   Config `json:"config"`
	Preamble []Op   `json:"preamble"`
	Ops      []Op   `json:"ops"`
	FailedAt int    `json:"failed_at"`
	CrashAt  int    `json:"crash_before_mutation"`
	Torn     int    `json:"torn_bytes"`
	Choices  []int  `json:"choices"`
}

// concScenariosOf lists the engine-A scenarios of a property (both tiers).
func concScenariosOf(prop string) []*ConcScenario {
	var scs []*ConcScenario
	for _, tier := range []string{"quick", "thorough"} {
		switch prop {
		case "C03":
			scs = append(scs, c03ConcScenarios(tier)...)
		case "C05":
			scs = append(scs, c05Scenarios(tier)...)
		case "C06":
			scs = append(scs, c06Scenarios(tier)...)
		case "C07":
			scs = append(scs, c07ConcScenarios(tier)...)
		case "C12":
			scs = append(scs, c12Scenarios(tier)...)
		case "C13":
			scs = append(scs, c13ConcScenarios(tier)...)
		case "C14":
			scs = append(scs, c14ConcScenarios(tier)...)
		case "C17":
			scs = append(scs, c17Scenarios(tier)...)
		}
	}
	return scs
}

func runReplay(t *testing.T, c *Collector, path string) {
	data, err := os.ReadFile(path)
	if err != nil {
		c.res.InfraError = err.Error()
		return
	}
	var doc replayDoc
	if err := json.Unmarshal(data, &doc); err != nil {
		c.res.InfraError = err.Error()
		return
	}
	raw, _ := json.Marshal(doc.Violation.Replay)
	var spec replaySpec
	var eng struct {
		Engine string `json:"engine"`
	}
	json.Unmarshal(raw, &eng)
	spec.Engine = eng.Engine
	switch eng.Engine {
	case "S", "X", "A":
		// these share the store-level operation type
		if err := json.Unmarshal(raw, &spec); err != nil {
			c.res.InfraError = err.Error()
			return
		}
	}
	prop := doc.Property
	switch spec.Engine {
	case "S":
		sc := findSeqScenario(prop, spec)
		if sc == nil {
			c.res.InfraError = "no scenario for replay"
			return
		}
		v, at, w := sc.runHistory(spec.Ops, c)
		c.res.Evaluations++
		if w != nil {
			w.Close()
		}
		if v != nil && sc.owns(v) {
			v.Property = prop
			v.History = opsString(append(append([]Op{}, spec.Preamble...), spec.Ops...))
			applyFlags(w, v)
			v.Replay = doc.Violation.Replay
			c.violation(v, at)
		}
	case "X":
		sc := &CrashScenario{Prop: prop, Name: spec.Scenario, Cfg: spec.Config, Preamble: spec.Preamble}
		if prop == "C07" {
			sc.Oracles = []string{"fsck"}
		}
		if prop == "C09" {
			sc.Recover = recoverC09
		}
		if prop == "C10" {
			// the scenario carries the legacy store it starts from
			sc = nil
			for _, tier := range []string{"quick", "thorough"} {
				for _, x := range c10CrashScenarios(tier) {
					if x.Name == spec.Scenario && x.Cfg == spec.Config {
						sc = x
					}
				}
			}
			if sc == nil {
				c.res.InfraError = "no scenario for replay"
				return
			}
		}
		sc.only = &spec
		sc.crashHistory(spec.Ops, c, map[[40]byte]struct{}{})
	case "B-index":
		var r struct {
			Alphabet []byte `json:"alphabet"`
			N        int    `json:"n"`
			Bits     uint8  `json:"bits"`
			FileSz   uint32 `json:"file_size"`
			Ops      []ixOp `json:"ops"`
		}
		if err := json.Unmarshal(raw, &r); err != nil || r.N == 0 {
			c.res.InfraError = "replay file has no universe description"
			return
		}
		keys := ixUniverse(r.Alphabet, r.N, r.Bits)
		_, canon, obs, v := ixReplay(keys, r.Bits, r.FileSz, r.Ops)
		c.res.Evaluations++
		fmt.Printf("history: %s\nstate: %s\nobservations: %s\n", ixOpsString(r.Ops), canon, obs)
		if v != nil {
			v.Property = prop
			v.History = ixOpsString(r.Ops)
			v.Replay = doc.Violation.Replay
			c.violation(v, 0)
		}
	case "B-filecache":
		var r struct {
			Ops []fcOp `json:"ops"`
		}
		json.Unmarshal(raw, &r)
		_, v := fcReplay(r.Ops)
		c.res.Evaluations++
		if v != nil {
			v.Property = prop
			v.Replay = doc.Violation.Replay
			c.violation(v, 0)
		}
	case "S-blockstore":
		var r struct {
			Bits uint8  `json:"bits"`
			Fsz  uint32 `json:"file_size"`
			Ops  []bsOp `json:"ops"`
		}
		json.Unmarshal(raw, &r)
		var v *Violation
		func() {
			defer func() {
				if rr := recover(); rr != nil {
					v = viol("panic", "panic: %v", rr)
				}
			}()
			w, err := newBsWorld(r.Bits, r.Fsz)
			if err != nil {
				v = viol("open-error", "open: %v", err)
				return
			}
			defer func() {
				defer func() { recover() }()
				if w.bs != nil {
					w.bs.Close()
				}
			}()
			for _, o := range r.Ops {
				fmt.Printf("  %s\n", o.str(w.blocks))
				if v = w.step(o, r.Fsz); v != nil {
					return
				}
			}
			v = w.final()
		}()
		c.res.Evaluations++
		if v != nil {
			v.Property = prop
			v.Replay = doc.Violation.Replay
			c.violation(v, 0)
		}
	case "S-fault":
		var raw2 struct {
			Case string `json:"case"`
			N    int64  `json:"fail_call"`
		}
		json.Unmarshal(raw, &raw2)
		for _, tier := range []string{"quick", "thorough"} {
			for _, fsq := range c17FaultSeqs(tier) {
				if fsq.name != raw2.Case {
					continue
				}
				_, hit, v := runFaultSeq(t, c, fsq, raw2.N)
				c.res.Evaluations++
				fmt.Printf("failed call: %s\n", hit)
				if v != nil {
					c.violation(v, 0)
				}
				return
			}
		}
		c.res.InfraError = "no sequence for replay"
	case "A":
		var sc *ConcScenario
		for _, x := range concScenariosOf(prop) {
			if x.Name == spec.Scenario {
				sc = x
				break
			}
		}
		if sc == nil {
			c.res.InfraError = "no scenario for replay"
			return
		}
		verbose = true
		e := &Explorer{t: t, c: c, sc: sc, outcomes: map[string]int64{}, nshards: 1}
		x := e.runOne(spec.Choices, nil)
		if x == nil {
			c.res.InfraError = "execution returned no result"
			return
		}
		c.res.Evaluations++
		fmt.Printf("schedule:\n")
		for _, st := range x.trace.steps {
			fmt.Printf("  %s\n", st)
		}
		fmt.Printf("outcome: %s\n", x.outcome)
		if x.viol == nil {
			for _, p := range x.pending {
				if !checkLinearizable(p.init, p.recs, p.imm) {
					x.viol = p.onFail
					break
				}
			}
		}
		if x.viol == nil && x.crash != nil {
			if doc.Violation.Oracle == "crash" {
				e.crashOnly = &spec
			}
			if vs := e.crashCheck(x); len(vs) > 0 {
				x.viol = vs[0]
			}
		}
		if x.viol != nil {
			v := x.viol
			v.Property = prop
			if v.Config == "" {
				v.Config = sc.Cfg.String()
			}
			v.History = sc.Desc
			v.Replay = doc.Violation.Replay
			c.violation(v, 0)
		}
	default:
		c.res.InfraError = fmt.Sprintf("replay of engine %q not supported here (engine R violations are race-detector reports; re-run the check)", spec.Engine)
	}
}

func findSeqScenario(prop string, spec replaySpec) *SeqScenario {
	var scs []*SeqScenario
	for _, tier := range []string{"quick", "thorough"} {
		switch prop {
		case "C01":
			scs = append(scs, c01Scenarios(tier)...)
		case "C02":
			scs = append(scs, c02Scenarios(tier)...)
		case "C04", "C07", "C13":
			scs = append(scs, gcScenarios(prop, tier)...)
		case "C11":
			scs = append(scs, c11Scenarios(tier)...)
		}
	}
	for _, sc := range scs {
		if sc.Name == spec.Scenario && sc.Cfg == spec.Config && opsString(sc.Preamble) == opsString(spec.Preamble) {
			return sc
		}
	}
	return nil
}
