package harness

import (
	"fmt"
	"sort"
	"strings"
	"testing"

	"github.com/ipld/go-storethehash/store/filecache"
	"github.com/ipld/go-storethehash/verifshim/vos"
)

// C14 — engine B: explicit-state breadth-first search over the real FileCache
// (on MemFS) to a fixpoint of canonical states. A state is reached by
// replaying the shortest op history that leads to it on a fresh cache.

type fcOp struct {
	Kind string `json:"k"` // new, open, close, remove, clear, resize
	Arg  int    `json:"a"` // capacity / name index / lent index
}

func (o fcOp) String() string {
	switch o.Kind {
	case "new":
		return fmt.Sprintf("New(%d)", o.Arg)
	case "open":
		return fmt.Sprintf("Open(%c)", 'a'+o.Arg)
	case "close":
		return fmt.Sprintf("Close(lent[%d])", o.Arg)
	case "read":
		return "ReadAt(lent[0])"
	case "remove":
		return fmt.Sprintf("Remove(%c)", 'a'+o.Arg)
	case "clear":
		return "Clear"
	case "resize":
		return fmt.Sprintf("SetCacheSize(%d)", o.Arg)
	}
	return "?"
}

func fcOpsString(ops []fcOp) string {
	parts := make([]string, len(ops))
	for i, o := range ops {
		parts[i] = o.String()
	}
	return strings.Join(parts, "; ")
}

type fcWorld struct {
	fs    *vos.MemFS
	fc    *filecache.FileCache
	lent  []*vos.File // in order of lending (one entry per Open not yet closed)
	names []string
}

// fcMaxLent bounds the handles lent at once (3 quick, 4 thorough).
var fcMaxLent = 3

func fcReplay(hist []fcOp) (w *fcWorld, v *Violation) {
	w = &fcWorld{fs: vos.NewMemFS(), names: []string{"/f/a", "/f/b", "/f/c", "/f/d"}}
	w.fs.MkdirRaw("/f")
	for _, n := range w.names {
		w.fs.WriteFileRaw(n, []byte("content of "+n))
	}
	w.fs.TrackSites(false)
	vos.SetBackend(w.fs)
	defer func() {
		if r := recover(); r != nil {
			v = violO("fc", "panic", "panic: %v", r)
		}
	}()
	for i, op := range hist {
		switch op.Kind {
		case "new":
			w.fc = filecache.New(op.Arg)
		case "open":
			f, err := w.fc.Open(w.names[op.Arg])
			if err != nil {
				return w, violO("fc", "call-error", "Open(%s): %v", w.names[op.Arg], err)
			}
			w.lent = append(w.lent, f)
		case "close":
			f := w.lent[op.Arg]
			w.lent = append(w.lent[:op.Arg:op.Arg], w.lent[op.Arg+1:]...)
			if err := w.fc.Close(f); err != nil {
				return w, violO("fc", "call-error", "Close of a lent handle (%s): %v", f.Name(), err)
			}
		case "remove":
			w.fc.Remove(w.names[op.Arg])
		case "clear":
			w.fc.Clear()
		case "resize":
			w.fc.SetCacheSize(op.Arg)
		}
		if v := w.invariants(); v != nil {
			v.Detail = fmt.Sprintf("after op %d (%s): %s", i, op, v.Detail)
			return w, v
		}
	}
	return w, nil
}

func (w *fcWorld) invariants() *Violation {
	capacity, ents, removed := w.fc.VerifState()
	lentCount := map[*vos.File]int{}
	for _, f := range w.lent {
		lentCount[f]++
	}
	// every lent handle is open and readable
	for f := range lentCount {
		if f.IsClosed() {
			return violO("fc", "handle:closed-while-lent", "handle %d (%s) is lent out but has been closed", f.ID(), f.Name())
		}
		buf := make([]byte, 4)
		if _, err := f.ReadAt(buf, 0); err != nil {
			return violO("fc", "handle:closed-while-lent", "lent handle %d (%s) is not readable: %v", f.ID(), f.Name(), err)
		}
	}
	held := map[*vos.File]bool{}
	for _, e := range ents {
		held[e.File] = true
		if e.Refs < 0 {
			return violO("fc", "refs-negative", "cached entry %s has reference count %d", e.File.Name(), e.Refs)
		}
		if e.Refs != lentCount[e.File] {
			return violO("fc", "refs-mismatch", "cached entry %s (handle %d) has reference count %d but is lent out %d time(s)", e.File.Name(), e.File.ID(), e.Refs, lentCount[e.File])
		}
		if e.File.IsClosed() {
			return violO("fc", "handle:closed-while-cached", "cached handle %d (%s) has been closed", e.File.ID(), e.File.Name())
		}
	}
	for f, n := range removed {
		held[f] = true
		if n <= 0 {
			return violO("fc", "refs-negative", "removed entry %s has reference count %d", f.Name(), n)
		}
		if n != lentCount[f] {
			return violO("fc", "refs-mismatch", "removed-but-referenced handle %d (%s) has reference count %d but is lent out %d time(s)", f.ID(), f.Name(), n, lentCount[f])
		}
	}
	for f := range lentCount {
		held[f] = true
	}
	// every other descriptor ever opened is closed (exactly once)
	for _, h := range w.fs.OpenHandles() {
		found := false
		for f := range held {
			if f.ID() == h.ID {
				found = true
			}
		}
		if !found {
			return violO("fc", "handle:leaked", "descriptor %d (%s) is neither lent, cached nor pending removal, but still open", h.ID, h.Name)
		}
	}
	for _, ev := range w.fs.Events() {
		if ev.What == "double-close" {
			return violO("fc", "handle:double-close", "descriptor %d (%s) was closed twice", ev.ID, ev.Name)
		}
		return violO("fc", "handle:use-after-close", "%s on descriptor %d (%s)", ev.What, ev.ID, ev.Name)
	}
	_, open := w.fs.HandleCount()
	if open > capacity+len(lentCount) {
		return violO("fc", "fd-bound", "%d descriptors open, capacity %d + %d distinct lent handle(s)", open, capacity, len(lentCount))
	}
	return nil
}

// canon renders the exact cache state with handle ids renumbered by first
// occurrence (LRU order, reference counts, removed map, lent list).
func (w *fcWorld) canon() string {
	capacity, ents, removed := w.fc.VerifState()
	ids := map[*vos.File]int{}
	id := func(f *vos.File) int {
		if n, ok := ids[f]; ok {
			return n
		}
		ids[f] = len(ids)
		return ids[f]
	}
	var sb strings.Builder
	fmt.Fprintf(&sb, "cap=%d;lru=", capacity)
	for _, e := range ents {
		fmt.Fprintf(&sb, "(%s,h%d,r%d)", e.File.Name()[3:], id(e.File), e.Refs)
	}
	sb.WriteString(";lent=")
	for _, f := range w.lent {
		fmt.Fprintf(&sb, "(%s,h%d)", f.Name()[3:], id(f))
	}
	var rem []string
	for f, n := range removed {
		rem = append(rem, fmt.Sprintf("(%s,h%d,r%d)", f.Name()[3:], id(f), n))
	}
	sort.Strings(rem)
	sb.WriteString(";removed=" + strings.Join(rem, ""))
	return sb.String()
}

func (w *fcWorld) enabled(caps []int, names int) []fcOp {
	var ops []fcOp
	if len(w.lent) < fcMaxLent {
		for n := 0; n < names; n++ {
			ops = append(ops, fcOp{"open", n})
		}
	}
	for i := range w.lent {
		ops = append(ops, fcOp{"close", i})
	}
	for n := 0; n < names; n++ {
		ops = append(ops, fcOp{"remove", n})
	}
	ops = append(ops, fcOp{"clear", 0})
	for _, c := range caps {
		ops = append(ops, fcOp{"resize", c})
	}
	return ops
}

func runC14(c *Collector) {
	caps := []int{0, 1, 2, 3}
	names := 3
	maxStates := 400000
	if c.job.Tier != "quick" {
		caps = []int{0, 1, 2, 3, 4}
		names = 4
		fcMaxLent = 4
		maxStates = 3000000
	}
	c.res.Engine = "B (explicit-state BFS over the real FileCache on MemFS; successor = replay of the shortest history + 1 op on a fresh cache; canonical states; search to fixpoint)"
	c.res.Rule = "states = exact cache state (capacity, LRU order with handle ids renumbered by first occurrence, reference counts, removed map, lent list); ops Open/Close(matched)/Remove/Clear/SetCacheSize from every New(capacity); invariants after every op: lent handles open and readable, refs = lent count >= 0, every descriptor not lent/cached/pending is closed exactly once, open descriptors <= capacity + lent, no panic; non-trivial = transitions taken with at least one handle lent"
	if c.job.Shard != 0 {
		// the BFS frontier is not partitioned: shard 0 owns the search
		return
	}
	seen := map[string]struct{}{}
	type node struct{ hist []fcOp }
	var frontier []node
	for _, cp := range caps {
		frontier = append(frontier, node{[]fcOp{{"new", cp}}})
	}
	maxDepth := 0
	for len(frontier) > 0 {
		if c.expired() {
			break
		}
		var next []node
		for _, nd := range frontier {
			w, v := fcReplay(nd.hist)
			c.res.Evaluations++
			c.res.Transitions++
			if v != nil {
				v.Property = "C14"
				v.History = fcOpsString(nd.hist)
				v.Culprit = nd.hist[len(nd.hist)-1].Kind
				v.Replay = map[string]any{"engine": "B-filecache", "ops": nd.hist}
				c.violation(v, len(nd.hist))
				continue
			}
			key := w.canon()
			if _, dup := seen[key]; dup {
				continue
			}
			seen[key] = struct{}{}
			c.stateKey(key)
			if len(w.lent) > 0 {
				c.count("nontrivial", 1)
			}
			if len(seen)%5000 == 1 {
				c.sample(map[string]any{"history": fcOpsString(nd.hist), "state": key})
			}
			if len(nd.hist) > maxDepth {
				maxDepth = len(nd.hist)
			}
			if len(seen) >= maxStates {
				c.res.Exhaustive = false
				c.res.CapsHit = append(c.res.CapsHit, fmt.Sprintf("state cap %d", maxStates))
				frontier = nil
				next = nil
				break
			}
			for _, op := range w.enabled(caps, names) {
				h := make([]fcOp, len(nd.hist)+1)
				copy(h, nd.hist)
				h[len(nd.hist)] = op
				next = append(next, node{h})
			}
		}
		frontier = next
	}
	c.res.Bound = fmt.Sprintf("%d file names, capacities %v, <= %d handles lent; fixpoint reached=%v; %d canonical states; longest shortest-history %d ops", names, caps, fcMaxLent, c.res.Exhaustive, len(seen), maxDepth)
}

// ---- C14, concurrent part (engine A): two threads on one FileCache ----

type fcProg []fcOp // ops of one thread; "close" closes the thread's oldest open handle; "read" reads it

func execFileCache(t *testing.T, sc *ConcScenario, choose chooser) *execResult {
	res := &execResult{}
	w := &fcWorld{fs: vos.NewMemFS(), names: []string{"/f/a", "/f/b", "/f/c", "/f/d"}}
	w.fs.MkdirRaw("/f")
	for _, n := range w.names {
		w.fs.WriteFileRaw(n, []byte("content of "+n))
	}
	vos.SetBackend(w.fs)
	capacity := sc.Extra["cap"].(int)
	w.fc = filecache.New(capacity)
	progs := sc.Extra["progs"].([]fcProg)
	s := newSched(0, 0)
	held := make([][]*vos.File, len(progs))
	var firstViol *Violation
	for ti, prog := range progs {
		ti, prog := ti, prog
		s.spawn(fmt.Sprintf("T%d", ti+1), func() {
			defer func() {
				if r := recover(); r != nil && firstViol == nil {
					firstViol = violO("fc", "panic", "T%d: panic: %v", ti+1, r)
				}
			}()
			for _, op := range prog {
				switch op.Kind {
				case "open":
					f, err := w.fc.Open(w.names[op.Arg])
					if err != nil {
						if firstViol == nil {
							firstViol = violO("fc", "call-error", "T%d Open(%s): %v", ti+1, w.names[op.Arg], err)
						}
						return
					}
					held[ti] = append(held[ti], f)
				case "read":
					if len(held[ti]) > 0 {
						buf := make([]byte, 4)
						if _, err := held[ti][0].ReadAt(buf, 0); err != nil && firstViol == nil {
							firstViol = violO("fc", "handle:closed-while-lent", "T%d: handle %d (%s) obtained from the cache and not yet released is not readable: %v", ti+1, held[ti][0].ID(), held[ti][0].Name(), err)
						}
					}
				case "close":
					if len(held[ti]) > 0 {
						f := held[ti][0]
						held[ti] = held[ti][1:]
						if err := w.fc.Close(f); err != nil && firstViol == nil {
							firstViol = violO("fc", "call-error", "T%d Close(%s): %v", ti+1, f.Name(), err)
						}
					}
				case "remove":
					w.fc.Remove(w.names[op.Arg])
				case "clear":
					w.fc.Clear()
				case "resize":
					w.fc.SetCacheSize(op.Arg)
				}
			}
		})
	}
	s.run(choose)
	res.trace = schedTrace{decisions: append([]decision{}, s.trace.decisions...), steps: append([]string{}, s.trace.steps...)}
	res.aborted = s.aborted
	res.conflicts = s.conflicts
	if s.aborted != "" {
		if !strings.HasPrefix(s.aborted, "replay-divergence") {
			res.viol = violO("fc", "deadlock", "%s: %s", s.aborted, s.describe())
		}
		abortProcessAfter(res)
		return res
	}
	s.releaseAll()
	w.lent = nil
	for _, hs := range held {
		w.lent = append(w.lent, hs...)
	}
	res.viol = firstViol
	if res.viol == nil {
		res.viol = w.invariants()
	}
	res.outcome = w.canon()
	return res
}

func c14ConcScenarios(tier string) []*ConcScenario {
	O := func(n int) fcOp { return fcOp{"open", n} }
	Rd := fcOp{"read", 0}
	Cl := fcOp{"close", 0}
	pairs := [][]fcProg{
		{{O(0), Rd, Cl}, {O(0), Rd, Cl}},
		{{O(0), Rd, Cl}, {O(1), Rd, Cl, O(2), Cl}},
		{{O(0), Rd, Cl}, {fcOp{"resize", 0}, fcOp{"resize", 2}}},
		{{O(0), Rd, Cl}, {fcOp{"remove", 0}, O(0), Cl}},
		{{O(0), O(1), Rd, Cl, Cl}, {fcOp{"clear", 0}, fcOp{"resize", 1}}},
		{{O(0), Rd, Cl}, {O(0), fcOp{"resize", 1}, Rd, Cl}},
	}
	bound := 2
	caps := []int{0, 1, 2}
	if tier != "quick" {
		bound = 3
	}
	var scs []*ConcScenario
	for _, cp := range caps {
		for pi, pr := range pairs {
			sc := &ConcScenario{Prop: "C14", Bound: bound, Exec: execFileCache, Extra: map[string]any{"cap": cp, "progs": pr}}
			sc.Name = fmt.Sprintf("c14/cap=%d/pair=%d", cp, pi)
			var parts []string
			for ti, p := range pr {
				parts = append(parts, fmt.Sprintf("T%d[%s]", ti+1, fcOpsString(p)))
			}
			sc.Desc = fmt.Sprintf("New(%d); %s", cp, strings.Join(parts, " || "))
			scs = append(scs, sc)
		}
	}
	return scs
}
