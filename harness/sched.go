package harness

import (
	"bytes"
	"fmt"
	"runtime"
	"sort"
	"strconv"
	"strings"
	"sync"
	"testing/synctest"
	"time"

	"github.com/ipld/go-storethehash/verifshim/vhook"
)

// Engine A's controlled cooperative scheduler. It runs inside one synctest
// bubble per execution. Every goroutine that reaches a vhook point (lock
// acquisition or file-system call) parks on a private channel; the scheduler
// (the bubble's root goroutine) calls synctest.Wait() — after which every
// goroutine of the bubble is durably blocked: parked at a point, blocked on a
// native channel/timer operation, or gone — and resumes exactly one parked
// thread whose operation is admissible under the modelled lock state.

type tstate uint8

const (
	tsRunning tstate = iota
	tsAtPoint
	tsDone
)

type thread struct {
	id      int
	name    string
	goid    int64
	state   tstate
	op      vhook.Op
	resume  chan struct{}
	harness bool
	steps   int
}

type lockModel struct {
	writer  *thread
	readers map[*thread]int
	label   string
}

// decision is one scheduling decision of an execution.
type decision struct {
	enabled   []string // canonical order; "tick" is a pseudo thread
	sig       uint64   // hash of enabled names + ops, for replay validation
	chosen    int
	runningOn bool // the previously running thread is still enabled (choice 0)
}

type schedTrace struct {
	decisions []decision
	steps     []string // "thread:op" per step (for replay files)
}

type Sched struct {
	// chanPoints: channel statements of the code under test are scheduling
	// points (set per scenario: they multiply the schedules of scenarios
	// whose background goroutines are stopped through channels, and matter
	// where a thread registers for a notification and then waits for it)
	chanPoints bool
	mu       sync.Mutex
	threads  []*thread
	byGoid   map[int64]*thread
	locks    map[any]*lockModel
	lockSeq  int
	rootGoid int64
	current  *thread
	step     int
	clock    int // logical clock of call/return events (one thread runs at a time)
	trace    schedTrace
	ticks    int // remaining tick events
	tickStep time.Duration
	maxSteps int
	aborted  string
	bgNames  map[string]int
	verbose  bool
	// conflict accounting: how often two different threads alternated on the
	// same lock or file (non-triviality of the execution)
	lastUser  map[string]int
	conflicts int
}

func goid() int64 {
	var buf [64]byte
	n := runtime.Stack(buf[:], false)
	// "goroutine 123 ["
	b := buf[:n]
	b = b[len("goroutine "):]
	i := bytes.IndexByte(b, ' ')
	id, _ := strconv.ParseInt(string(b[:i]), 10, 64)
	return id
}

func entryFunc() string {
	buf := make([]byte, 8192)
	n := runtime.Stack(buf, false)
	lines := strings.Split(string(buf[:n]), "\n")
	// the last function line before "created by"
	last := ""
	for i := 1; i < len(lines); i++ {
		l := lines[i]
		if strings.HasPrefix(l, "created by ") {
			break
		}
		if len(l) > 0 && l[0] != '\t' {
			last = l
		}
	}
	if j := strings.LastIndex(last, "("); j > 0 {
		last = last[:j]
	}
	if j := strings.LastIndex(last, "/"); j >= 0 {
		last = last[j+1:]
	}
	return last
}

func newSched(ticks int, tickStep time.Duration) *Sched {
	return &Sched{
		byGoid:   make(map[int64]*thread),
		locks:    make(map[any]*lockModel),
		rootGoid: goid(),
		ticks:    ticks,
		tickStep: tickStep,
		maxSteps: 20000,
		bgNames:  make(map[string]int),
		lastUser: make(map[string]int),
	}
}

// spawn starts a harness thread; it parks at its start point before running
// body.
func (s *Sched) spawn(name string, body func()) {
	th := &thread{name: name, harness: true, resume: make(chan struct{})}
	s.mu.Lock()
	th.id = len(s.threads)
	s.threads = append(s.threads, th)
	s.mu.Unlock()
	go func() {
		g := goid()
		s.mu.Lock()
		th.goid = g
		s.byGoid[g] = th
		s.mu.Unlock()
		s.Point(vhook.Op{Kind: vhook.KStart})
		defer func() {
			s.mu.Lock()
			th.state = tsDone
			s.mu.Unlock()
		}()
		body()
	}()
}

// Point implements vhook.Hooks.
func (s *Sched) Point(op vhook.Op) {
	g := goid()
	if g == s.rootGoid {
		return
	}
	if op.Kind == vhook.KChan && !s.chanPoints {
		return
	}
	s.mu.Lock()
	th := s.byGoid[g]
	if th == nil {
		// a goroutine started by the code under test
		base := entryFunc()
		n := s.bgNames[base]
		s.bgNames[base] = n + 1
		name := base
		if n > 0 {
			name = fmt.Sprintf("%s#%d", base, n)
		}
		th = &thread{name: name, goid: g, resume: make(chan struct{})}
		th.id = len(s.threads)
		s.threads = append(s.threads, th)
		s.byGoid[g] = th
	}
	th.state = tsAtPoint
	th.op = op
	s.mu.Unlock()
	<-th.resume
}

func (s *Sched) lock(obj any) *lockModel {
	l := s.locks[obj]
	if l == nil {
		s.lockSeq++
		l = &lockModel{readers: make(map[*thread]int), label: fmt.Sprintf("L%d", s.lockSeq)}
		s.locks[obj] = l
	}
	return l
}

// Acquired implements vhook.Hooks.
func (s *Sched) Acquired(obj any, excl bool) {
	g := goid()
	s.mu.Lock()
	defer s.mu.Unlock()
	th := s.byGoid[g]
	if th == nil {
		return
	}
	l := s.lock(obj)
	if excl {
		l.writer = th
	} else {
		l.readers[th]++
	}
}

// Released implements vhook.Hooks.
func (s *Sched) Released(obj any, excl bool) {
	g := goid()
	s.mu.Lock()
	defer s.mu.Unlock()
	th := s.byGoid[g]
	l := s.lock(obj)
	if excl {
		l.writer = nil
	} else if th != nil {
		if l.readers[th] <= 1 {
			delete(l.readers, th)
		} else {
			l.readers[th]--
		}
	} else {
		for r := range l.readers {
			delete(l.readers, r)
			break
		}
	}
}

// leakedLocks lists the locks that the model still shows as held by a thread
// that has finished: a call that returned without releasing a lock. Whatever
// touches that lock next blocks for ever (and a goroutine blocked on a mutex
// is not something a synctest bubble can see through), so the caller reports
// it and leaves the worker.
func (s *Sched) leakedLocks() []string {
	s.mu.Lock()
	defer s.mu.Unlock()
	var out []string
	for _, l := range s.locks {
		if l.writer != nil && l.writer.harness && l.writer.state == tsDone {
			out = append(out, l.label+" (held exclusively by "+l.writer.name+", which has returned)")
		}
		for r := range l.readers {
			if r.harness && r.state == tsDone {
				out = append(out, l.label+" (held shared by "+r.name+", which has returned)")
			}
		}
	}
	sort.Strings(out)
	return out
}

func (s *Sched) admissible(th *thread) bool {
	switch th.op.Kind {
	case vhook.KLock:
		l := s.lock(th.op.Obj)
		return l.writer == nil && len(l.readers) == 0
	case vhook.KRLock:
		l := s.lock(th.op.Obj)
		return l.writer == nil
	}
	return true
}

func (s *Sched) opString(th *thread) string {
	op := th.op
	switch op.Kind {
	case vhook.KLock, vhook.KRLock, vhook.KTryLock:
		return op.Kind.String() + ":" + s.lock(op.Obj).label
	case vhook.KFS:
		w := "r"
		if op.Write {
			w = "w"
		}
		return "fs:" + op.Name + ":" + op.Path + ":" + w
	}
	return op.Kind.String()
}

func (s *Sched) resourceOf(th *thread) string {
	op := th.op
	switch op.Kind {
	case vhook.KLock, vhook.KRLock, vhook.KTryLock:
		return s.lock(op.Obj).label
	case vhook.KFS:
		return op.Path
	}
	return ""
}

type chooser func(d *decision, idx int) int

// run drives one execution: at every decision it asks choose for the index
// into the canonical enabled list. It returns when no harness thread is left,
// nothing is enabled and no tick remains.
func (s *Sched) run(choose chooser) {
	vhook.Install(s)
	defer vhook.Install(nil)
	for {
		synctest.Wait()
		s.mu.Lock()
		var enabled []*thread
		pendingHarness := 0
		for _, th := range s.threads {
			if th.harness && th.state != tsDone {
				pendingHarness++
			}
			if th.state == tsAtPoint && s.admissible(th) {
				enabled = append(enabled, th)
			}
		}
		// canonical order: the thread that ran last first (if still
		// enabled), then ascending ids
		sort.Slice(enabled, func(i, j int) bool { return enabled[i].id < enabled[j].id })
		runningOn := false
		if s.current != nil {
			for i, th := range enabled {
				if th == s.current {
					copy(enabled[1:i+1], enabled[:i])
					enabled[0] = th
					runningOn = true
					break
				}
			}
		}
		names := make([]string, 0, len(enabled)+1)
		var sb strings.Builder
		for _, th := range enabled {
			names = append(names, th.name)
			sb.WriteString(th.name)
			sb.WriteByte('@')
			sb.WriteString(s.opString(th))
			sb.WriteByte(';')
		}
		tickIdx := -1
		if s.ticks > 0 {
			tickIdx = len(names)
			names = append(names, "tick")
			sb.WriteString("tick;")
		}
		s.mu.Unlock()
		if len(names) == 0 {
			if pendingHarness > 0 {
				s.aborted = "deadlock"
			}
			return
		}
		if s.step >= s.maxSteps {
			s.aborted = "step-limit"
			return
		}
		d := decision{enabled: names, sig: fnv64(sb.String()), runningOn: runningOn}
		idx := len(s.trace.decisions)
		d.chosen = choose(&d, idx)
		if d.chosen < 0 || d.chosen >= len(names) {
			s.aborted = fmt.Sprintf("replay-divergence: decision %d has %d alternatives, choice %d", idx, len(names), d.chosen)
			return
		}
		s.trace.decisions = append(s.trace.decisions, d)
		s.step++
		if d.chosen == tickIdx {
			s.ticks--
			s.current = nil
			s.trace.steps = append(s.trace.steps, "tick")
			time.Sleep(s.tickStep + time.Nanosecond)
			continue
		}
		th := enabled[d.chosen]
		s.mu.Lock()
		res := s.resourceOf(th)
		if res != "" {
			if last, ok := s.lastUser[res]; ok && last != th.id {
				s.conflicts++
			}
			s.lastUser[res] = th.id
		}
		s.trace.steps = append(s.trace.steps, th.name+" "+s.opString(th))
		th.state = tsRunning
		th.steps++
		s.current = th
		s.mu.Unlock()
		th.resume <- struct{}{}
	}
}

// stuck lists threads that are parked at a point or still running (blocked
// natively) — used to describe deadlocks and stuck writers.
func (s *Sched) describe() string {
	s.mu.Lock()
	defer s.mu.Unlock()
	var parts []string
	for _, th := range s.threads {
		switch th.state {
		case tsAtPoint:
			parts = append(parts, fmt.Sprintf("%s parked before %s", th.name, s.opString(th)))
		case tsRunning:
			if th.harness {
				parts = append(parts, fmt.Sprintf("%s blocked natively", th.name))
			}
		}
	}
	return strings.Join(parts, "; ")
}

func (s *Sched) harnessBlocked() []string {
	s.mu.Lock()
	defer s.mu.Unlock()
	var out []string
	for _, th := range s.threads {
		if th.harness && th.state != tsDone {
			out = append(out, th.name)
		}
	}
	return out
}

// releaseAll lets every parked thread go (used after the exploration part of
// an execution, when the hooks are uninstalled and the rest runs freely).
func (s *Sched) releaseAll() {
	s.mu.Lock()
	var parked []*thread
	for _, th := range s.threads {
		if th.state == tsAtPoint {
			th.state = tsRunning
			parked = append(parked, th)
		}
	}
	s.mu.Unlock()
	for _, th := range parked {
		th.resume <- struct{}{}
	}
}
