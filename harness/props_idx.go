package harness

import (
	"bytes"
	"context"
	"fmt"
	"sort"
	"strings"

	"github.com/ipld/go-storethehash/store/filecache"
	"github.com/ipld/go-storethehash/store/index"
	"github.com/ipld/go-storethehash/store/primary/inmemory"
	"github.com/ipld/go-storethehash/store/types"
	"github.com/ipld/go-storethehash/verifshim/vos"
)

// C08 — engine B on the real index.Index (over MemFS, with the in-memory
// primary): explicit-state BFS to a fixpoint over a closed key universe, under
// the store's calling discipline. Canonical state = (sorted list of (stored
// prefix, key id), dirty flag): the index uses a location only to hand it back
// and to ask the primary for the key stored there, so behaviour is equivariant
// under injective renaming of locations.

type ixOp struct {
	Kind string `json:"k"` // put, reput, update, remove, flush
	Key  int    `json:"key"`
}

func (o ixOp) String() string {
	if o.Kind == "flush" {
		return "Flush"
	}
	return fmt.Sprintf("%s(k%d)", o.Kind, o.Key)
}

func ixOpsString(ops []ixOp) string {
	parts := make([]string, len(ops))
	for i, o := range ops {
		parts[i] = o.String()
	}
	return strings.Join(parts, "; ")
}

type ixWorld struct {
	fs      *vos.MemFS
	idx     *index.Index
	prim    *inmemory.InMemory
	keys    [][]byte
	loc     map[int]types.Block // current location of present keys
	bits    uint8
	fileSz  uint32
	bucket  uint32
	strip   int
	pending string
}

const ixPath = "/x/index"

func ixUniverse(alphabet []byte, n int, bits uint8) [][]byte {
	nb := int(bits+7) / 8
	var keys [][]byte
	var rec func(prefix []byte)
	rec = func(prefix []byte) {
		if len(prefix) == n {
			k := make([]byte, nb+n)
			k[0] = 0x21
			copy(k[nb:], prefix)
			for len(k) < 4 {
				k = append(k, 0)
			}
			keys = append(keys, k)
			return
		}
		for _, a := range alphabet {
			rec(append(append([]byte{}, prefix...), a))
		}
	}
	rec(nil)
	return keys
}

func newIxWorld(keys [][]byte, bits uint8, fileSz uint32) (*ixWorld, error) {
	w := &ixWorld{fs: vos.NewMemFS(), keys: keys, loc: map[int]types.Block{}, bits: bits, fileSz: fileSz}
	w.fs.MkdirRaw("/x")
	vos.SetBackend(w.fs)
	w.prim = inmemory.New(nil)
	// location 0 is never handed out to a key (an Offset of 0 is legal, but
	// keeps traces easier to read)
	w.prim.Put([]byte("pad!"), nil)
	idx, err := index.Open(context.Background(), ixPath, w.prim, bits, fileSz, 0, 0, filecache.New(4))
	if err != nil {
		return nil, err
	}
	w.idx = idx
	w.strip = int(bits / 8)
	mask := uint32(1)<<bits - 1
	k := keys[0]
	w.bucket = (uint32(k[0]) | uint32(k[1])<<8 | uint32(k[2])<<16 | uint32(k[3])<<24) & mask
	return w, nil
}

// list returns the current record list of the universe's bucket as the index
// itself would resolve it: unflushed pool, last flushed pool, then disk.
func (w *ixWorld) list() ([]idxEntry, bool, error) {
	next, cur := w.idx.VerifPools()
	if d, ok := next[w.bucket]; ok {
		ents, ok2 := parseEntries(d)
		if !ok2 {
			return nil, true, fmt.Errorf("unflushed record list does not parse")
		}
		return ents, true, nil
	}
	if d, ok := cur[w.bucket]; ok {
		ents, ok2 := parseEntries(d)
		if !ok2 {
			return nil, false, fmt.Errorf("cached record list does not parse")
		}
		return ents, false, nil
	}
	pos := uint64(w.idx.VerifBuckets()[w.bucket])
	if pos == 0 {
		return nil, false, nil
	}
	file := uint32((pos - 4) / uint64(w.fileSz))
	local := int64(pos - uint64(file)*uint64(w.fileSz))
	data, ok := w.fs.ReadFileRaw(fmt.Sprintf("%s.%d", ixPath, file))
	if !ok {
		return nil, false, fmt.Errorf("bucket points into missing index file %d", file)
	}
	recs, _ := parseIndexFile(data, file)
	for _, r := range recs {
		if r.Pos+4 == local {
			if r.BadList {
				return nil, false, fmt.Errorf("record list on disk does not parse")
			}
			return r.Entries, false, nil
		}
	}
	return nil, false, fmt.Errorf("no record at the bucket position")
}

func (w *ixWorld) keyAt(off uint64) int {
	k, _, err := w.prim.Get(types.Block{Offset: types.Position(off)})
	if err != nil {
		return -1
	}
	for i, u := range w.keys {
		if bytes.Equal(u, k) {
			return i
		}
	}
	return -1
}

// check verifies the oracle of C08 and returns the canonical state and the
// observation vector.
func (w *ixWorld) check() (canon string, obs string, v *Violation) {
	ents, dirty, err := w.list()
	if err != nil {
		return "", "", violO("ix", "bad-list", "%v", err)
	}
	var sb strings.Builder
	seen := map[int]bool{}
	for i, e := range ents {
		if i > 0 {
			p := ents[i-1].Prefix
			if bytes.Compare(p, e.Prefix) >= 0 {
				return "", "", violO("ix", "not-sorted", "stored prefixes %x then %x", p, e.Prefix)
			}
			if bytes.HasPrefix(e.Prefix, p) {
				return "", "", violO("ix", "not-prefix-free", "stored prefix %x is a prefix of %x", p, e.Prefix)
			}
		}
		ki := w.keyAt(e.Off)
		if ki < 0 {
			return "", "", violO("ix", "dangling-entry", "entry %x points at location %d which holds no universe key", e.Prefix, e.Off)
		}
		if !bytes.HasPrefix(w.keys[ki][w.strip:], e.Prefix) {
			return "", "", violO("ix", "prefix-of-other-key", "entry with stored prefix %x points at key %x", e.Prefix, w.keys[ki][w.strip:])
		}
		cur, present := w.loc[ki]
		if !present {
			return "", "", violO("ix", "entry-for-absent-key", "entry %x refers to key k%d which is not present", e.Prefix, ki)
		}
		if uint64(cur.Offset) != e.Off {
			return "", "", violO("ix", "stale-location", "entry of k%d holds location %d, latest is %d", ki, e.Off, cur.Offset)
		}
		if seen[ki] {
			return "", "", violO("ix", "duplicate-entry", "two entries for key k%d", ki)
		}
		seen[ki] = true
		fmt.Fprintf(&sb, "(%x,k%d)", e.Prefix, ki)
	}
	for ki := range w.loc {
		if !seen[ki] {
			return "", "", violO("ix", "missing-entry", "present key k%d has no entry", ki)
		}
	}
	// lookups
	var ob strings.Builder
	for ki, k := range w.keys {
		blk, found, err := w.idx.Get(k)
		if err != nil {
			return "", "", violO("ix", "call-error", "Get(k%d): %v", ki, err)
		}
		cur, present := w.loc[ki]
		switch {
		case present && (!found || blk != cur):
			return "", "", violO("ix", "wrong-location", "Get(k%d) = (%+v,%v), latest location is %+v", ki, blk, found, cur)
		case !present && found:
			other := w.keyAt(uint64(blk.Offset))
			if other < 0 || other == ki {
				return "", "", violO("ix", "wrong-location", "Get of absent k%d returned location %d which does not hold another key", ki, blk.Offset)
			}
			fmt.Fprintf(&ob, "k%d->k%d;", ki, other)
		case present:
			fmt.Fprintf(&ob, "k%d->self;", ki)
		default:
			fmt.Fprintf(&ob, "k%d->nf;", ki)
		}
	}
	return fmt.Sprintf("%s|dirty=%v", sb.String(), dirty), ob.String(), nil
}

func entriesExcept(ents []idxEntry, w *ixWorld, key int) string {
	var sb strings.Builder
	for _, e := range ents {
		if w.keyAt(e.Off) == key {
			continue
		}
		fmt.Fprintf(&sb, "(%x,%d,%d)", e.Prefix, e.Off, e.Size)
	}
	return sb.String()
}

func (w *ixWorld) apply(op ixOp) *Violation {
	before, _, _ := w.list()
	switch op.Kind {
	case "put":
		blk, _ := w.prim.Put(w.keys[op.Key], []byte("v"))
		if err := w.idx.Put(w.keys[op.Key], blk); err != nil {
			return violO("ix", "call-error", "Put(k%d): %v", op.Key, err)
		}
		w.loc[op.Key] = blk
	case "reput":
		// Put of a key that is present must change nothing
		blk, _ := w.prim.Put(w.keys[op.Key], []byte("w"))
		if err := w.idx.Put(w.keys[op.Key], blk); err != nil {
			return violO("ix", "call-error", "Put(k%d) of a present key: %v", op.Key, err)
		}
	case "update":
		blk, _ := w.prim.Put(w.keys[op.Key], []byte("u"))
		otherBefore := entriesExcept(before, w, op.Key)
		if err := w.idx.Update(w.keys[op.Key], blk); err != nil {
			return violO("ix", "call-error", "Update(k%d): %v", op.Key, err)
		}
		w.loc[op.Key] = blk
		after, _, _ := w.list()
		if entriesExcept(after, w, op.Key) != otherBefore {
			return violO("ix", "touched-other-entry", "Update(k%d) changed another key's entry: %s -> %s", op.Key, otherBefore, entriesExcept(after, w, op.Key))
		}
	case "remove":
		otherBefore := entriesExcept(before, w, op.Key)
		ok, err := w.idx.Remove(w.keys[op.Key])
		if err != nil {
			return violO("ix", "call-error", "Remove(k%d): %v", op.Key, err)
		}
		if !ok {
			return violO("ix", "wrong-return", "Remove(k%d) of a present key returned false", op.Key)
		}
		delete(w.loc, op.Key)
		after, _, _ := w.list()
		if entriesExcept(after, w, op.Key) != otherBefore {
			return violO("ix", "touched-other-entry", "Remove(k%d) changed another key's entry: %s -> %s", op.Key, otherBefore, entriesExcept(after, w, op.Key))
		}
	case "flush":
		if _, err := w.idx.Flush(); err != nil {
			return violO("ix", "call-error", "Flush: %v", err)
		}
	}
	return nil
}

func ixReplay(keys [][]byte, bits uint8, fileSz uint32, hist []ixOp) (w *ixWorld, canon, obs string, v *Violation) {
	defer func() {
		if r := recover(); r != nil {
			v = violO("ix", "panic", "panic: %v", r)
		}
	}()
	w, err := newIxWorld(keys, bits, fileSz)
	if err != nil {
		return nil, "", "", violO("ix", "open-error", "%v", err)
	}
	for i, op := range hist {
		if v := w.apply(op); v != nil {
			v.Detail = fmt.Sprintf("op %d (%s): %s", i, op, v.Detail)
			return w, "", "", v
		}
		if _, _, v := w.check(); v != nil {
			v.Detail = fmt.Sprintf("after op %d (%s): %s", i, op, v.Detail)
			return w, "", "", v
		}
	}
	canon, obs, v = w.check()
	return w, canon, obs, v
}

func (w *ixWorld) enabled(maxPresent int, dirty bool) []ixOp {
	var ops []ixOp
	present := make([]int, 0, len(w.loc))
	for k := range w.loc {
		present = append(present, k)
	}
	sort.Ints(present)
	if len(present) < maxPresent {
		for k := range w.keys {
			if _, ok := w.loc[k]; !ok {
				ops = append(ops, ixOp{"put", k})
			}
		}
	}
	for _, k := range present {
		ops = append(ops, ixOp{"reput", k}, ixOp{"update", k}, ixOp{"remove", k})
	}
	if dirty {
		ops = append(ops, ixOp{"flush", 0})
	}
	return ops
}

type ixUniverseSpec struct {
	name       string
	alphabet   []byte
	n          int
	bits       uint8
	fileSz     uint32
	maxPresent int
}

func runC08(c *Collector) {
	specs := []ixUniverseSpec{
		{"bits8/{00,01}^3", []byte{0, 1}, 3, 8, 1 << 20, 8},
		{"bits8/{00,01}^3/rollover", []byte{0, 1}, 3, 8, 1, 8},
	}
	// the seed picks which extra universe the quick tier closes
	extra := []ixUniverseSpec{
		{"bits8/{00,01,ff}^2", []byte{0, 1, 0xff}, 2, 8, 1 << 20, 9},
		{"bits12/{00,01}^3", []byte{0, 1}, 3, 12, 1 << 20, 8},
		{"bits8/{00,ff}^4/max4", []byte{0, 0xff}, 4, 8, 1 << 20, 4},
		{"bits24/{00,01,02}^1", []byte{0, 1, 2}, 1, 24, 1 << 20, 3},
	}
	if c.job.Tier == "quick" {
		specs = append(specs, extra[int(c.job.Seed)%len(extra)])
	} else {
		specs = append(specs, extra...)
		specs = append(specs,
			ixUniverseSpec{"bits8/{00,01,ff}^3/max4", []byte{0, 1, 0xff}, 3, 8, 1 << 20, 4},
			ixUniverseSpec{"bits16/{00,01}^4/max5", []byte{0, 1}, 4, 16, 48, 5},
		)
	}
	c.res.Engine = "B (explicit-state BFS over the real index.Index on MemFS with the in-memory primary; successor = replay of the shortest history + 1 op; canonical states; search to fixpoint)"
	c.res.Rule = "closed key universes (all keys of a small alphabet and length in one bucket); ops under the store's calling discipline: Put(absent), Put(present) = no-op, Update(present), Remove(present), Flush; canonical state = (sorted (stored prefix, key id) list, dirty flag); after every op: every present key resolves to its latest location, absent keys to nothing or another key's location, list sorted / prefix-free / own-prefix / bijective with present keys, Update/Remove leave other entries byte-identical; re-reached states must give the same observation vector; non-trivial = states with >= 2 present keys"
	var bounds []string
	for si, sp := range specs {
		if si%c.job.NShards != c.job.Shard {
			continue
		}
		keys := ixUniverse(sp.alphabet, sp.n, sp.bits)
		seen := map[string]string{}
		type node struct{ hist []ixOp }
		frontier := []node{{nil}}
		maxDepth := 0
		for len(frontier) > 0 && !c.expired() {
			var next []node
			for _, nd := range frontier {
				if c.expired() {
					break
				}
				w, canon, obs, v := ixReplay(keys, sp.bits, sp.fileSz, nd.hist)
				c.res.Evaluations++
				c.res.Transitions++
				if v != nil {
					v.Property = "C08"
					v.Config = sp.name
					v.History = ixOpsString(nd.hist)
					if len(nd.hist) > 0 {
						v.Culprit = nd.hist[len(nd.hist)-1].Kind
					}
					v.Replay = map[string]any{"engine": "B-index", "universe": sp.name, "alphabet": sp.alphabet, "n": sp.n, "bits": sp.bits, "file_size": sp.fileSz, "max_present": sp.maxPresent, "ops": nd.hist}
					c.violation(v, len(nd.hist))
					continue
				}
				if prev, dup := seen[canon]; dup {
					if prev != obs {
						c.res.InfraError = fmt.Sprintf("abstraction unsound: state %s reached with observations %s and %s (history %s)", canon, prev, obs, ixOpsString(nd.hist))
						return
					}
					continue
				}
				seen[canon] = obs
				c.stateKey(sp.name + "|" + canon)
				if len(w.loc) >= 2 {
					c.count("nontrivial", 1)
				}
				if len(seen)%2000 == 1 {
					c.sample(map[string]any{"universe": sp.name, "history": ixOpsString(nd.hist), "state": canon})
				}
				if len(nd.hist) > maxDepth {
					maxDepth = len(nd.hist)
				}
				dirty := strings.HasSuffix(canon, "dirty=true")
				for _, op := range w.enabled(sp.maxPresent, dirty) {
					h := make([]ixOp, len(nd.hist)+1)
					copy(h, nd.hist)
					h[len(nd.hist)] = op
					next = append(next, node{h})
				}
			}
			frontier = next
		}
		bounds = append(bounds, fmt.Sprintf("%s: %d keys, <=%d present, %d canonical states, fixpoint=%v, longest shortest-history %d", sp.name, len(keys), sp.maxPresent, len(seen), len(frontier) == 0, maxDepth))
		c.res.Notes = append(c.res.Notes, bounds[len(bounds)-1])
	}
	c.res.Bound = fmt.Sprintf("%d closed universes, each searched to fixpoint (any history length)", len(specs))
}
