package harness

import (
	"fmt"
)

// SeqScenario is one universe for the sequential history enumerator (engine
// S): every sequence of at most Depth operations from Alphabet is executed on
// a fresh store of configuration Cfg, the reference model stepped in
// lock-step, followed by the final battery.
type SeqScenario struct {
	Prop     string
	Name     string
	Cfg      Config
	Preamble []Op // executed before the enumerated part (non-initial start states)
	Alphabet []Op
	Depth    int
	// Allow prunes histories (true = explore). nil = all.
	Allow func(hist []Op) bool
	// Final is the end-of-history battery. nil = defaultFinal.
	Final func(w *World, c *Collector) *Violation
	// Setup tweaks a freshly opened world (ledger on, etc).
	Setup func(w *World)
	// Classify refines a violation (trigger / culprit) from the history.
	Classify func(w *World, hist []Op, v *Violation)
	// Oracles lists the oracles whose verdicts this scenario reports ("map",
	// "fsck", "ledger", "handles", "reclaim", "diff"). A violation raised by
	// any other oracle ends the history (its continuation is meaningless) but
	// is not reported: each check alarms only for its own property.
	Oracles []string
	// Nontrivial reports whether the executed history is a non-trivial case.
	Nontrivial func(w *World, hist []Op) bool
}

func defaultFinal(w *World, c *Collector) *Violation {
	if v := w.Reads(); v != nil {
		return v
	}
	if v := w.Iterate(); v != nil {
		return v
	}
	if v := w.Reads(); v != nil {
		return v
	}
	return nil
}

func (sc *SeqScenario) owns(v *Violation) bool {
	if len(sc.Oracles) == 0 {
		return v.Oracle == "map" || v.Oracle == ""
	}
	for _, o := range sc.Oracles {
		if o == v.Oracle {
			return true
		}
	}
	return false
}

// runHistory executes one history from scratch and returns the violation (if
// any) together with the index of the failing op (-1: preamble, len(hist):
// final battery).
func (sc *SeqScenario) runHistory(hist []Op, c *Collector) (v *Violation, at int, w *World) {
	defer func() {
		if r := recover(); r != nil {
			v = viol("panic", "panic: %v", r)
			if w != nil {
				w.opened = false
			}
		}
	}()
	w, err := NewWorld(sc.Cfg)
	if err != nil {
		return viol("open-error", "open: %v", err), -1, w
	}
	if sc.Setup != nil {
		sc.Setup(w)
	}
	for _, op := range sc.Preamble {
		c.res.Transitions++
		if v := w.Step(op); v != nil {
			return v, -1, w
		}
	}
	for i, op := range hist {
		c.res.Transitions++
		at = i
		if v := w.Step(op); v != nil {
			return v, i, w
		}
	}
	at = len(hist)
	final := sc.Final
	if final == nil {
		final = defaultFinal
	}
	if v := final(w, c); v != nil {
		return v, len(hist), w
	}
	return nil, len(hist), w
}

// enumerate runs the DFS. unit numbering: every node at depth <= 2 is a work
// unit; shard s of n owns units with index%n == s and the whole subtree below
// its depth-2 units.
func (sc *SeqScenario) enumerate(c *Collector, unitBase *int) {
	var hist []Op
	var rec func(depth int, mine bool)
	rec = func(depth int, mine bool) {
		if c.expired() {
			return
		}
		if depth <= 2 {
			mine = (*unitBase)%c.job.NShards == c.job.Shard
			*unitBase++
		}
		failed := false
		if !mine && depth > 0 && depth <= 2 {
			// Not this shard's unit, but its verdict decides whether the
			// subtree is explored at all: run it without recording.
			v, _, w := sc.runHistory(hist, newCollector(c.job))
			if w != nil {
				w.Close()
			}
			failed = v != nil
		}
		if mine && depth > 0 {
			v, at, w := sc.runHistory(hist, c)
			c.res.Evaluations++
			if w != nil {
				if sc.Nontrivial != nil && sc.Nontrivial(w, hist) {
					c.count("nontrivial", 1)
				}
				if v == nil {
					d := w.FS.Digest()
					c.stateKey(string(d[:]) + sortedModel(w.Model))
				}
				w.Close()
			}
			if v != nil && !sc.owns(v) {
				failed = true
				c.count("foreign_oracle_verdicts_ignored", 1)
				v = nil
			}
			if v != nil {
				failed = true
				v.Property = sc.Prop
				v.Config = sc.Cfg.String()
				full := append(append([]Op{}, sc.Preamble...), hist...)
				v.History = opsString(full)
				if at == len(hist) {
					v.History += "; <final battery>"
				}
				applyFlags(w, v)
				if sc.Classify != nil {
					sc.Classify(w, hist, v)
				}
				v.Replay = map[string]any{"engine": "S", "scenario": sc.Name, "config": sc.Cfg, "preamble": sc.Preamble, "ops": append([]Op{}, hist...), "failed_at": at}
				c.violation(v, len(hist))
			} else if c.res.Evaluations%5000 == 1 {
				c.sample(map[string]any{"config": sc.Cfg.String(), "history": opsString(hist)})
			}
		}
		if depth == sc.Depth {
			return
		}
		if failed {
			// A history whose prefix already failed is not extended: every
			// reported counterexample is minimal in length.
			c.count("pruned_after_failure", 1)
			return
		}
		for _, op := range sc.Alphabet {
			hist = append(hist, op)
			if sc.Allow == nil || sc.Allow(hist) {
				rec(depth+1, mine)
			}
			hist = hist[:len(hist)-1]
		}
	}
	rec(0, false)
}

func runSeqScenarios(c *Collector, scs []*SeqScenario) {
	unit := 0
	for _, sc := range scs {
		sc.enumerate(c, &unit)
		if c.expired() {
			break
		}
	}
	c.res.Engine = "S (sequential history enumerator, fresh real store per history, reference map in lock-step)"
	c.res.Bound = fmt.Sprintf("%d scenarios; all histories up to the per-scenario depth", len(scs))
}
