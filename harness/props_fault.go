package harness

import (
	"context"
	"fmt"
	"os"
	"strings"
	"testing"
	"testing/synctest"
	"time"

	store "github.com/ipld/go-storethehash/store"
	"github.com/ipld/go-storethehash/verifshim/vos"
)

// C17, single-fault enumeration. "A failed open releases everything it had
// acquired" and "when Close returns every descriptor is closed and every
// goroutine has stopped" are statements about every way an open or a history
// can fail, and the existing failing-open cases only contain failures that are
// detected before anything is acquired. Here one I/O error (EIO, no effect) is
// injected at the n-th file-system call of a sequence, for every n up to the
// number of calls of the fault-free run: exhaustive over single deviations
// from the default environment answer. The sequence runs to its end whatever
// its calls return, Close is called if the open succeeded, and the resource
// oracle of C17 is applied: no descriptor open, no goroutine in store code, no
// file-system mutation during three further GC intervals of fake time.

type faultSeq struct {
	name string
	cfg  Config
	// prep builds the directory the sequence starts from (closed store)
	prep []Op
	// reopen configuration (bit size 0 = same)
	bits uint8
	// ops are issued after a successful open, return values ignored
	ops   []Op
	start bool // start the flusher
	desc  string
	// legacy: the sequence starts from a legacy-format store built from this
	// history (the open upgrades it)
	legacy []Op
}

func c17FaultSeqs(tier string) []faultSeq {
	base := []Op{P(0, 1), P(1, 2), opF, P(4, 1), R(1), P(0, 3), opF, P(3, 1)}
	seqs := []faultSeq{
		{name: "open-ops-close", cfg: cfg("mh", false, 8, 48, 48), prep: base, start: true,
			ops: []Op{G(0), P(2, 1), R(4), opF, {Kind: OpPriGC, A: 50}, {Kind: OpIdxGC, B: true}, G(3), P(1, 1)}},
		{name: "rebucket-open-close", cfg: cfg("mh", false, 16, 48, 48), prep: base, bits: 12,
			ops: []Op{G(0), P(2, 1)}},
		{name: "reads-close", cfg: cfg("mh", false, 8, 1, 1), prep: base,
			ops: []Op{G(0), H(3), Z(4), G(1), G(0)}},
	}
	seqs = append(seqs,
		faultSeq{name: "open-ops-close/1-byte-files", cfg: cfg("mh", false, 8, 1, 1), prep: base, start: true,
			ops: []Op{G(0), P(2, 1), R(4), opF, {Kind: OpPriGC, A: 0}, {Kind: OpIdxGC, B: true}, {Kind: OpPriGC, A: 0}, G(3), P(1, 1)}},
		faultSeq{name: "cid-open-ops-close", cfg: cfg("cid", false, 8, 48, bigFile), prep: base,
			ops: []Op{G(0), P(2, 1), R(4), opF, {Kind: OpIdxGC, B: true}, G(3)}},
		faultSeq{name: "rebucket-up-open-close", cfg: cfg("mh", false, 8, 48, 48), prep: base, bits: 16,
			ops: []Op{G(0), P(2, 1)}},
		faultSeq{name: "iterate-close", cfg: cfg("mh", false, 8, 48, 48), prep: base,
			ops: []Op{{Kind: OpIterate}, P(2, 1), {Kind: OpIterate}}},
		faultSeq{name: "legacy-upgrade-open-close", cfg: cfg("mh", false, 8, 40, 40),
			legacy: []Op{P(0, 1), P(1, 2), opF, P(0, 2), P(3, 1), opF, R(1), opF},
			ops:    []Op{G(0), P(2, 1), opF, {Kind: OpPriGC, A: 0}}})
	if tier != "quick" {
		// every ordered pair of a small alphabet as the body, on two file-size
		// settings
		alpha := []Op{P(0, 2), R(0), opF, {Kind: OpPriGC, A: 0}, {Kind: OpIdxGC, B: true}, G(0), {Kind: OpIterate}}
		for _, fc := range []Config{cfg("mh", false, 8, 1, 1), cfg("mh", false, 8, 48, 48)} {
			for _, a := range alpha {
				for _, b := range alpha {
					seqs = append(seqs, faultSeq{name: fmt.Sprintf("pair/%d/%s;%s", fc.IdxFS, a, b), cfg: fc, prep: base, ops: []Op{a, b}})
				}
			}
		}
	}
	for i := range seqs {
		s := &seqs[i]
		open := "OpenStore"
		if s.bits != 0 {
			open = fmt.Sprintf("OpenStore[%d bits]", s.bits)
		}
		s.desc = fmt.Sprintf("[%s; Close]; %s; %s; Close", opsString(s.prep), open, opsString(s.ops))
		if s.legacy != nil {
			s.desc = fmt.Sprintf("legacy store from [%s]; %s; %s; Close", opsString(s.legacy), open, opsString(s.ops))
		}
	}
	return seqs
}

// runFaultSeq runs one sequence with the n-th file-system call failing (n = 0:
// no fault) and returns the number of calls made and a violation, if any.
func runFaultSeq(t *testing.T, c *Collector, fsq faultSeq, n int64) (calls int64, hit string, v *Violation) {
	synctest.Test(t, func(t *testing.T) {
		var w *World
		if fsq.legacy != nil {
			ls, err := buildLegacy(fsq.cfg.Bits, fsq.legacy, 0, true)
			if err != nil {
				return
			}
			w = &World{Cfg: fsq.cfg, FS: vos.FromImage(ls.img), Model: map[string][]byte{}, GCInt: time.Hour, Sync: 1000 * time.Hour, Keys: ls.keys, Probes: ls.probe}
			setMapOrder(fsq.cfg)
		} else {
			var err error
			w, err = newWorldWith(fsq.cfg, func(w *World) { w.GCInt = time.Hour })
			if err != nil {
				c.res.InfraError = err.Error()
				return
			}
			for _, op := range fsq.prep {
				if sv := w.Step(op); sv != nil {
					w.Close()
					return // the fault-free set-up misbehaves: other checks report it
				}
			}
			if err := w.Close(); err != nil {
				return
			}
		}
		synctest.Wait()
		w.FS.TrackSites(true)
		opts := w.options()
		if fsq.bits != 0 {
			opts = append(opts, store.IndexBitSize(fsq.bits))
		}
		vos.SetBackend(w.FS)
		before := w.FS.Ops()
		w.FS.FailOp(n)
		var panicked string
		func() {
			defer func() {
				if r := recover(); r != nil {
					panicked = fmt.Sprint(r)
				}
			}()
			s, err := store.OpenStore(context.Background(), w.Cfg.primaryType(), dataPath, idxPath, w.Cfg.Immutable, opts...)
			c.res.Transitions++
			if err == nil {
				w.S = s
				if fsq.start {
					s.Start()
				}
				for _, op := range fsq.ops {
					var rec callRec
					w.doCall(op, &rec)
					c.res.Transitions++
					if strings.HasPrefix(rec.Err, "panic") {
						panicked = rec.Err
						break
					}
				}
				s.Close()
				c.res.Transitions++
			}
		}()
		calls = w.FS.Ops() - before
		hit = w.FS.FaultHit()
		w.FS.FailOp(0)
		mk := func(sym, format string, args ...any) *Violation {
			x := viol(sym, format, args...)
			x.Property, x.Oracle = "C17", "resources"
			x.Config = fsq.cfg.String()
			x.History = fsq.desc
			x.Trigger = "io-error-in:" + fsq.name
			x.Culprit = "fault:" + faultSite(hit)
			x.Detail = fmt.Sprintf("file-system call %d of the sequence failed with EIO (%s) => %s", n, hit, x.Detail)
			x.Replay = map[string]any{"engine": "S-fault", "case": fsq.name, "fail_call": n}
			return x
		}
		if panicked != "" {
			v = mk("panic", "%s", panicked)
			return
		}
		synctest.Wait()
		if _, open := w.FS.HandleCount(); open != 0 {
			v = mk("handle:leaked", "%d descriptor(s) still open after the sequence ended: %v", open, w.FS.OpenHandles())
		}
		if g := storeGoroutines(); len(g) > 0 {
			if v == nil {
				v = mk("goroutine-outlives-close", "goroutines still in store code after the sequence ended: %v", g)
			} else {
				v.Detail += fmt.Sprintf("; goroutines still in store code: %v", g)
			}
			// the bubble can never end with a goroutine left behind: record,
			// write the results and leave the worker
			c.violation(v, int(n))
			c.res.Evaluations++
			c.res.Exhaustive = false
			c.res.CapsHit = append(c.res.CapsHit, "worker stopped after an execution that leaves a goroutine behind (violation recorded)")
			c.finish()
			os.Exit(0)
		}
		if v != nil {
			return
		}
		ops0 := w.FS.Ops()
		time.Sleep(3 * time.Hour)
		synctest.Wait()
		if w.FS.Ops() != ops0 {
			v = mk("fs-activity-after-close", "%d file-system call(s) during three GC intervals after the sequence ended", w.FS.Ops()-ops0)
			return
		}
	})
	return
}

// faultSite reduces a fault description ("op path @inner<outer") to the
// repository function in which the failing call was issued.
func faultSite(hit string) string {
	if i := strings.Index(hit, "@"); i >= 0 {
		inner, _, _ := strings.Cut(hit[i+1:], "<")
		op, _, _ := strings.Cut(hit, " ")
		return op + " in " + inner
	}
	if hit == "" {
		return "none"
	}
	return hit
}

func runC17Faults(t *testing.T, c *Collector) {
	seqs := c17FaultSeqs(c.job.Tier)
	unit := 0
	for _, fsq := range seqs {
		// the fault-free run gives the number of calls
		total, _, v := runFaultSeq(t, c, fsq, 0)
		if c.res.InfraError != "" {
			return
		}
		if v != nil {
			// the fault-free sequence already leaks: the other parts of C17 report it
			c.count("foreign_oracle_verdicts_ignored", 1)
			continue
		}
		if c.job.Shard == 0 {
			c.count("fault_points:"+fsq.name, total)
		}
		for n := int64(1); n <= total; n++ {
			mine := unit%c.job.NShards == c.job.Shard
			unit++
			if !mine {
				continue
			}
			if c.expired() {
				return
			}
			_, hit, v := runFaultSeq(t, c, fsq, n)
			if c.res.InfraError != "" {
				return
			}
			c.res.Evaluations++
			if hit != "" {
				c.count("faults_injected", 1)
				c.count("nontrivial", 1)
				c.stateKey("fault:" + fsq.name + ":" + faultSite(hit))
			}
			if v != nil {
				c.violation(v, int(n))
			}
		}
	}
}
