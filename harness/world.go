package harness

import (
	"bytes"
	"context"
	"errors"
	"fmt"
	"io"
	"sort"
	"strings"
	"time"

	"github.com/ipfs/go-cid"
	"github.com/ipld/go-storethehash/store"
	"github.com/ipld/go-storethehash/store/index"
	mhprimary "github.com/ipld/go-storethehash/store/primary/multihash"
	"github.com/ipld/go-storethehash/store/types"
	"github.com/ipld/go-storethehash/verifshim/vhook"
	"github.com/ipld/go-storethehash/verifshim/vos"
	"github.com/multiformats/go-multihash"
)

const (
	idxPath  = "/s/index"
	dataPath = "/s/data"
	bigFile  = uint32(1 << 30)
)

// Config is one store configuration.
type Config struct {
	Primary   string `json:"primary"` // "mh" or "cid"
	Immutable bool   `json:"immutable"`
	Bits      uint8  `json:"bits"`
	IdxFS     uint32 `json:"idx_fs"`
	PriFS     uint32 `json:"pri_fs"`
	MapDesc   bool   `json:"map_desc"`
	SelDesc   bool   `json:"select_desc,omitempty"`
	DigestLen int    `json:"digest_len"`
}

func (c Config) String() string {
	s := fmt.Sprintf("%s/imm=%v/bits=%d/ifs=%d/pfs=%d/desc=%v/dl=%d", c.Primary, c.Immutable, c.Bits, c.IdxFS, c.PriFS, c.MapDesc, c.DigestLen)
	if c.SelDesc {
		s += "/seldesc"
	}
	return s
}

func (c Config) primaryType() string {
	if c.Primary == "cid" {
		return store.CIDPrimary
	}
	return store.MultihashPrimary
}

// Key is one member of a key universe.
type Key struct {
	Name   string
	Digest []byte // the index key
	Raw    []byte // what is passed to the store (multihash or CID bytes)
}

// makeKey builds an identity-multihash key (or a CIDv1-raw over it for the
// CID primary) whose index key is exactly digest.
func makeKey(name string, digest []byte, cidPrimary bool) Key {
	mh, err := multihash.Encode(digest, multihash.IDENTITY)
	if err != nil {
		panic(err)
	}
	raw := []byte(mh)
	if cidPrimary {
		raw = cid.NewCidV1(cid.Raw, mh).Bytes()
	}
	return Key{Name: name, Digest: append([]byte(nil), digest...), Raw: raw}
}

// universe builds the standard colliding-key universe for a configuration:
// K0,K1 share all but the last byte, K2 shares all but the last two, K3
// differs in the first byte after the bucket bytes, K4 has K0's suffix in
// another bucket; P0..P2 are probes that are never stored but match stored
// prefixes of present keys in some states.
func universe(c Config) (keys []Key, probes []Key) {
	nb := int(c.Bits+7) / 8 // bytes that carry bucket bits
	dl := c.DigestLen
	if dl == 0 {
		dl = nb + 4
	}
	if dl < 4 {
		dl = 4
	}
	rest := dl - nb
	if rest < 1 {
		rest = 1
	}
	mk := func(name string, bucketByte byte, suffix []byte) Key {
		d := make([]byte, nb+rest)
		d[0] = bucketByte
		// bytes 1..nb-1 of the bucket prefix stay zero so that keys with the
		// same bucketByte share the bucket for every bit size.
		copy(d[nb:], suffix)
		for len(d) < 4 {
			d = append(d, 0)
		}
		return makeKey(name, d, c.Primary == "cid")
	}
	suf := func(vals ...byte) []byte {
		s := make([]byte, rest)
		// right-align vals in the suffix
		for i := 0; i < len(vals) && i < rest; i++ {
			s[rest-1-i] = vals[len(vals)-1-i]
		}
		return s
	}
	first := func(v byte) []byte {
		s := make([]byte, rest)
		s[0] = v
		return s
	}
	const B, B2 = 0x11, 0x12
	keys = []Key{
		mk("K0", B, suf(1)),
		mk("K1", B, suf(2)),
	}
	if rest >= 2 {
		keys = append(keys, mk("K2", B, suf(1, 0)))
	} else {
		keys = append(keys, mk("K2", B, suf(4)))
	}
	if rest >= 2 {
		keys = append(keys, mk("K3", B, first(1)))
	} else {
		keys = append(keys, mk("K3", B, suf(8)))
	}
	keys = append(keys, mk("K4", B2, suf(1)))
	// K5 = K0 with a bit set in the byte that is only partly covered by the
	// bucket bits (when the bit size is not a multiple of 8): same bucket as
	// K0, and the stored keys differ only in that straddling byte. For whole
	// byte bit sizes it is simply a key of a third bucket.
	k5 := mk("K5", B, suf(1))
	k5d := append([]byte(nil), k5.Digest...)
	k5d[nb-1] |= 0x10
	if nb == 1 {
		k5d[0] = 0x31
	}
	keys = append(keys, makeKey("K5", k5d, c.Primary == "cid"))
	probes = []Key{
		mk("P0", B, suf(3)),
	}
	if rest >= 2 {
		probes = append(probes, mk("P1", B, suf(2, 0)), mk("P2", B, first(2)))
	} else {
		probes = append(probes, mk("P1", B, suf(5)), mk("P2", B, suf(9)))
	}
	return keys, probes
}

var values = [][]byte{
	{},           // V0: empty
	[]byte("a"),  // V1
	[]byte("bb"), // V2
	[]byte("cc"), // V3: same length as V2
	nil,          // V4: nil
	bytes.Repeat([]byte("L"), 70), // V5: longer than the small file-size limits
}

func valName(v int) string {
	return [...]string{"e", "a", "bb", "cc", "nil", "L70"}[v]
}

// World is one store instance over one MemFS together with its reference
// model.
type World struct {
	Cfg    Config
	FS     *vos.MemFS
	S      *store.Store
	Keys   []Key
	Probes []Key
	Model  map[string][]byte // by digest
	GCInt  time.Duration
	Sync   time.Duration
	Burst  uint64
	opened bool
	// Trace of executed operations (for replay files).
	Trace []Op
	// when set, a Put/Remove is allowed to lose against a concurrent op (A engine handles oracles itself)
	ledger *Ledger
	// initLocs: locations of the present keys before the concurrent phase
	// (engine A ledger scenarios).
	initLocs map[string]types.Block
	relocs   int
	// crashed: the world was recovered from a crash image (file tails may be
	// torn; fsck group F0 does not apply).
	crashed bool
	// real: the world runs on the real file system under vos.SetRealRoot
	// (shim-fidelity runs); FS is then an unused placeholder.
	real bool
	// GCErrors collects errors returned by GC cycles (not violations).
	GCErrors []string
	// Flags are trace predicates evaluated by the harness itself; they become
	// the trigger part of a violation's fingerprint (known-findings matching).
	Flags map[string]string
}

type rawLoc struct {
	blk     types.Block
	found   bool
	content string
}

// recordContent reads the primary record at blk ("" if unreadable).
func (w *World) recordContent(blk types.Block) string {
	key, val, err := w.S.Primary().Get(blk)
	if err != nil || key == nil {
		return ""
	}
	return fmt.Sprintf("%x=%q", key, val)
}

// rawLocations asks the index (prefix match only, no key comparison) where
// every universe key and probe resolves to.
func (w *World) rawLocations() map[string]rawLoc {
	out := make(map[string]rawLoc)
	for _, ks := range [][]Key{w.Keys, w.Probes} {
		for _, k := range ks {
			blk, found, err := w.idx().Get(k.Digest)
			if err != nil {
				found = false
			}
			rl := rawLoc{blk: blk, found: found}
			if found {
				rl.content = w.recordContent(blk)
			}
			out[k.Name] = rl
		}
	}
	return out
}

func (w *World) keyByName(name string) Key {
	for _, ks := range [][]Key{w.Keys, w.Probes} {
		for _, k := range ks {
			if k.Name == name {
				return k
			}
		}
	}
	return Key{}
}

func (w *World) allNames() []string {
	var out []string
	for _, ks := range [][]Key{w.Keys, w.Probes} {
		for _, k := range ks {
			out = append(out, k.Name)
		}
	}
	return out
}

func (w *World) gcIndex(ctx context.Context, scanFree bool) (n int64, e int, err error) {
	defer func() {
		if r := recover(); r != nil {
			err = fmt.Errorf("panic: %v", r)
		}
	}()
	return w.idx().VerifGC(ctx, scanFree)
}

// NewWorld creates a fresh MemFS, installs it and opens a store on it.
func NewWorld(c Config) (*World, error) { return newWorldWith(c, nil) }

// newWorldWith lets the caller adjust the world (intervals, burst rate,
// logging) before the store is opened.
func newWorldWith(c Config, tweak func(w *World)) (*World, error) {
	w := &World{Cfg: c, FS: vos.NewMemFS(), Model: make(map[string][]byte), GCInt: 1000 * time.Hour, Sync: 1000 * time.Hour}
	w.FS.MkdirRaw("/s")
	w.Keys, w.Probes = universe(c)
	vos.SetBackend(w.FS)
	setMapOrder(c)
	if tweak != nil {
		tweak(w)
	}
	if err := w.Open(); err != nil {
		return nil, err
	}
	return w, nil
}

func setMapOrder(c Config) {
	vhook.SetMapOrderDesc(c.MapDesc)
	vhook.SetSelectOrderDesc(c.SelDesc)
}

func (w *World) options() []store.Option {
	opts := []store.Option{
		store.IndexBitSize(w.Cfg.Bits),
		store.IndexFileSize(w.Cfg.IdxFS),
		store.PrimaryFileSize(w.Cfg.PriFS),
		store.GCInterval(w.GCInt),
		store.GCTimeLimit(0),
		store.SyncInterval(w.Sync),
	}
	if w.Burst != 0 {
		opts = append(opts, store.BurstRate(w.Burst))
	}
	return opts
}

// Open opens the store on the world's file system.
func (w *World) Open() error {
	if w.real {
		vos.SetBackend(nil)
	} else {
		vos.SetBackend(w.FS)
	}
	s, err := store.OpenStore(context.Background(), w.Cfg.primaryType(), dataPath, idxPath, w.Cfg.Immutable, w.options()...)
	if err != nil {
		return err
	}
	w.S = s
	w.opened = true
	return nil
}

// Close closes the store.
func (w *World) Close() error {
	if !w.opened {
		return nil
	}
	w.opened = false
	return w.S.Close()
}

func (w *World) mh() *mhprimary.MultihashPrimary {
	mp, _ := w.S.Primary().(*mhprimary.MultihashPrimary)
	return mp
}

func (w *World) idx() *index.Index { return w.S.Index() }

// ---- operations ----

type OpKind uint8

const (
	OpPut OpKind = iota + 1
	OpRemove
	OpGet
	OpHas
	OpGetSize
	OpFlush
	OpReads   // Get/Has/GetSize of every key and probe
	OpIterate // whole-store iteration (flushes as a side effect)
	OpIdxGC   // B = scanFree, A = deadline cut (0 = none, n = Err() fails from its n-th call)
	OpPriGC   // A = low-use percent, V = deadline cut
	OpReopen  // A = 0 keep snapshot, 1 delete snapshot, 2 damage snapshot, 3 close twice
	OpRebits  // Close, then reopen with index bit size A (re-bucketing)
)

// Op is one call in a history.
type Op struct {
	Kind OpKind `json:"k"`
	K    int    `json:"key,omitempty"`
	V    int    `json:"val,omitempty"`
	A    int    `json:"a,omitempty"`
	B    bool   `json:"b,omitempty"`
}

func (o Op) String() string {
	switch o.Kind {
	case OpPut:
		return fmt.Sprintf("Put(K%d,%s)", o.K, valName(o.V))
	case OpRemove:
		return fmt.Sprintf("Remove(K%d)", o.K)
	case OpGet:
		return fmt.Sprintf("Get(K%d)", o.K)
	case OpHas:
		return fmt.Sprintf("Has(K%d)", o.K)
	case OpGetSize:
		return fmt.Sprintf("GetSize(K%d)", o.K)
	case OpFlush:
		return "Flush"
	case OpReads:
		return "Reads"
	case OpIterate:
		return "Iterate"
	case OpIdxGC:
		if o.A != 0 {
			return fmt.Sprintf("IndexGC(scanFree=%v,cut=%d)", o.B, o.A)
		}
		return fmt.Sprintf("IndexGC(scanFree=%v)", o.B)
	case OpPriGC:
		if o.V != 0 {
			return fmt.Sprintf("PrimaryGC(lowUse=%d,cut=%d)", o.A, o.V)
		}
		return fmt.Sprintf("PrimaryGC(lowUse=%d)", o.A)
	case OpReopen:
		return [...]string{"Reopen[snapshot]", "Reopen[no-snapshot]", "Reopen[bad-snapshot]", "Close;Close;Reopen"}[o.A]
	case OpRebits:
		return fmt.Sprintf("ReopenWithBits[%d]", o.A)
	}
	return "?"
}

func opsString(ops []Op) string {
	parts := make([]string, len(ops))
	for i, o := range ops {
		parts[i] = o.String()
	}
	return strings.Join(parts, "; ")
}

// Violation describes one failed oracle check.
type Violation struct {
	Property string `json:"property"`
	Symptom  string `json:"symptom"`           // closed list, DESIGN appendix A
	Culprit  string `json:"culprit,omitempty"` // repository site
	Trigger  string `json:"trigger,omitempty"` // harness-evaluated predicate on the trace
	Detail   string `json:"detail"`
	Config   string `json:"config,omitempty"`
	History  string `json:"history,omitempty"`
	Replay   any    `json:"replay,omitempty"`
	Known    string `json:"known,omitempty"` // id of the matching known finding
	Oracle   string `json:"oracle,omitempty"` // which oracle raised it: map, fsck, ledger, handles, reclaim, ...
	// failing call of a concurrent execution (engine A): its record, or nil
	// when the failing call is one of the quiescent final reads
	failRec *callRec
	// crash point of a violation found by the crash enumeration of a
	// concurrent execution
	crashAt, crashTorn int
}

func (v *Violation) Error() string {
	return fmt.Sprintf("%s %s: %s", v.Property, v.Symptom, v.Detail)
}

func viol(sym, format string, args ...any) *Violation {
	return &Violation{Symptom: sym, Detail: fmt.Sprintf(format, args...), Oracle: "map"}
}

func violO(oracle, sym, format string, args ...any) *Violation {
	return &Violation{Symptom: sym, Detail: fmt.Sprintf(format, args...), Oracle: oracle}
}

// countingCtx is a context whose Err() starts reporting DeadlineExceeded from
// its n-th call on; it enumerates every place a time limit can stop a GC cycle.
type countingCtx struct {
	context.Context
	calls int
	cutAt int
}

func (c *countingCtx) Err() error {
	c.calls++
	if c.cutAt > 0 && c.calls >= c.cutAt {
		return context.DeadlineExceeded
	}
	return nil
}

func (c *countingCtx) Done() <-chan struct{} { return nil }

type workSnap struct {
	idx, pri, fl types.Work
	log         int
}

func (w *World) snapWork() workSnap {
	return workSnap{w.idx().OutstandingWork(), w.S.Primary().OutstandingWork(), w.S.VerifFreelist().OutstandingWork(), w.FS.LogLen()}
}

func classifyValue(w *World, k Key, got []byte) string {
	// Which symptom class: another key's value, an older value ... the
	// harness only distinguishes what it can know cheaply.
	for d, v := range w.Model {
		if d != string(k.Digest) && bytes.Equal(v, got) && len(got) > 0 {
			return "value-of-other-key"
		}
	}
	return "wrong-value"
}

// checkGet compares one Get/Has/GetSize triple for key k with the model.
func (w *World) checkReadsOf(k Key) *Violation {
	want, present := w.Model[string(k.Digest)]
	got, found, err := w.S.Get(k.Raw)
	if err != nil {
		return viol("call-error", "Get(%s): %v", k.Name, err)
	}
	if found != present {
		if present {
			return viol("key-lost", "Get(%s): not found, model has %q", k.Name, want)
		}
		return viol("key-resurrected", "Get(%s): found %q, model has nothing", k.Name, got)
	}
	if present && !bytes.Equal(got, want) {
		return viol(classifyValue(w, k, got), "Get(%s) = %q, model has %q", k.Name, got, want)
	}
	has, err := w.S.Has(k.Raw)
	if err != nil {
		return viol("call-error", "Has(%s): %v", k.Name, err)
	}
	if has != present {
		return viol("wrong-return", "Has(%s) = %v, model says %v", k.Name, has, present)
	}
	sz, sfound, err := w.S.GetSize(k.Raw)
	if err != nil {
		return viol("call-error", "GetSize(%s): %v", k.Name, err)
	}
	if sfound != present {
		return viol("wrong-return", "GetSize(%s) found=%v, model says %v", k.Name, sfound, present)
	}
	if present && int(sz) != len(want) {
		return viol("wrong-return", "GetSize(%s) = %d, model value has %d bytes", k.Name, sz, len(want))
	}
	return nil
}

// Reads checks every key and probe against the model.
func (w *World) Reads() *Violation {
	for _, k := range w.Keys {
		if v := w.checkReadsOf(k); v != nil {
			return v
		}
	}
	for _, k := range w.Probes {
		if v := w.checkReadsOf(k); v != nil {
			return v
		}
	}
	return nil
}

// Iterate runs a whole-store iteration and compares the multiset of
// (index key, value) with the model.
func (w *World) Iterate() *Violation {
	it := w.S.NewIterator()
	seen := make(map[string]int)
	for n := 0; ; n++ {
		key, val, err := it.Next()
		if err == io.EOF {
			break
		}
		if err != nil {
			return viol("call-error", "Iterator.Next: %v", err)
		}
		if n > 10000 {
			return viol("wrong-return", "iteration does not terminate")
		}
		ik, err := w.S.Primary().IndexKey(key)
		if err != nil {
			return viol("wrong-return", "iteration returned a malformed key %x: %v", key, err)
		}
		want, present := w.Model[string(ik)]
		if !present {
			return viol("key-resurrected", "iteration returned key %x (value %q) that the model does not hold", ik, val)
		}
		if !bytes.Equal(val, want) {
			return viol("wrong-value", "iteration returned %q for key %x, model has %q", val, ik, want)
		}
		seen[string(ik)]++
	}
	for d := range w.Model {
		switch seen[d] {
		case 1:
		case 0:
			return viol("key-lost", "iteration missed key %x", d)
		default:
			return viol("iteration-duplicate", "iteration returned key %x %d times", d, seen[d])
		}
	}
	return nil
}

func isKeyExists(err error) bool { return errors.Is(err, types.ErrKeyExists) }

// Step executes op on the store and the model in lock-step and returns the
// first disagreement.
func (w *World) Step(op Op) *Violation {
	v := w.step(op)
	if w.ledger != nil && w.opened && v == nil {
		w.ledger.noteCurrent(w)
	}
	return v
}

func (w *World) step(op Op) *Violation {
	w.Trace = append(w.Trace, op)
	w.FS.SetTag(len(w.Trace) - 1)
	switch op.Kind {
	case OpPut:
		k := w.Keys[op.K]
		val := values[op.V]
		old, present := w.Model[string(k.Digest)]
		before := w.snapWork()
		var oldLoc types.Block
		var oldFound bool
		if w.ledger != nil {
			oldLoc, oldFound = w.locate(k)
		}
		err := w.S.Put(k.Raw, val)
		switch {
		case present && w.Cfg.Immutable:
			if !isKeyExists(err) {
				return viol("wrong-return", "Put(%s) of an existing key in immutable mode returned %v, want key-exists", k.Name, err)
			}
			if after := w.snapWork(); after != before {
				return viol("wrong-return", "rejected Put(%s) changed state: %+v -> %+v", k.Name, before, after)
			}
			if w.ledger != nil {
				w.ledger.noFree(fmt.Sprintf("rejected Put(%s)", k.Name))
			}
		case err != nil:
			return viol("call-error", "Put(%s,%s): %v", k.Name, valName(op.V), err)
		case present && bytes.Equal(old, val):
			if after := w.snapWork(); after != before {
				return viol("wrong-return", "identical re-Put(%s) changed state: %+v -> %+v", k.Name, before, after)
			}
			if w.ledger != nil {
				w.ledger.noFree(fmt.Sprintf("identical re-Put(%s)", k.Name))
			}
		default:
			w.Model[string(k.Digest)] = append([]byte{}, val...)
			if w.ledger != nil {
				if present && oldFound {
					w.ledger.superseded(oldLoc, fmt.Sprintf("overwrite of %s by op %d", k.Name, len(w.Trace)-1))
				} else if !present {
					w.ledger.noFree(fmt.Sprintf("Put of new key %s", k.Name))
				}
			}
		}
	case OpRemove:
		k := w.Keys[op.K]
		_, present := w.Model[string(k.Digest)]
		var oldLoc types.Block
		var oldFound bool
		if w.ledger != nil {
			oldLoc, oldFound = w.locate(k)
		}
		before := w.snapWork()
		removed, err := w.S.Remove(k.Raw)
		if err != nil {
			return viol("call-error", "Remove(%s): %v", k.Name, err)
		}
		if removed != present {
			return viol("wrong-return", "Remove(%s) = %v, model says present=%v", k.Name, removed, present)
		}
		delete(w.Model, string(k.Digest))
		if !present {
			if after := w.snapWork(); after != before {
				return viol("wrong-return", "Remove(%s) of an absent key changed state: %+v -> %+v", k.Name, before, after)
			}
		}
		if w.ledger != nil {
			if present && oldFound {
				w.ledger.superseded(oldLoc, fmt.Sprintf("remove of %s by op %d", k.Name, len(w.Trace)-1))
			} else if !present {
				w.ledger.noFree(fmt.Sprintf("Remove of absent key %s", k.Name))
			}
		}
	case OpGet, OpHas, OpGetSize:
		return w.checkReadsOf(w.Keys[op.K])
	case OpFlush:
		if err := w.S.Flush(); err != nil {
			return viol("call-error", "Flush: %v", err)
		}
	case OpReads:
		return w.Reads()
	case OpIterate:
		return w.Iterate()
	case OpIdxGC:
		ctx := &countingCtx{Context: context.Background(), cutAt: op.A}
		_, _, err := w.gcIndex(ctx, op.B)
		if err != nil && !(op.A != 0 && errors.Is(err, context.DeadlineExceeded)) {
			if strings.HasPrefix(err.Error(), "panic:") {
				return viol("panic", "index GC: %v", err)
			}
			// A cycle that gives up with an error is not, by itself, a change
			// of what the store contains; it is counted, not alarmed on.
			w.GCErrors = append(w.GCErrors, "index GC: "+err.Error())
		}
	case OpPriGC:
		mp := w.mh()
		if mp == nil {
			return nil
		}
		ctx := &countingCtx{Context: context.Background(), cutAt: op.V}
		before := w.rawLocations()
		poolBefore := len(w.S.VerifFreelist().VerifPool())
		_, err := w.gcPrimary(mp, ctx, int64(op.A))
		if err != nil && !(op.V != 0 && errors.Is(err, context.DeadlineExceeded)) {
			if strings.HasPrefix(err.Error(), "panic:") {
				return viol("panic", "primary GC: %v", err)
			}
			w.GCErrors = append(w.GCErrors, "primary GC: "+err.Error())
		}
		// Which locations did the cycle put on the freelist (= relocated
		// away from, or discarded)? Whose index entries did it change?
		pool := w.S.VerifFreelist().VerifPool()
		moved := map[types.Position]bool{}
		if len(pool) >= poolBefore {
			for _, b := range pool[poolBefore:] {
				moved[b.Offset] = true
			}
		}
		after := w.rawLocations()
		referenced := map[types.Position]bool{}
		for _, b := range before {
			if b.found {
				referenced[b.blk.Offset] = true
			}
		}
		// A relocation is recognised by its effect on the index alone (the
		// entry of a present key now names another location that holds the
		// same record), never by what the collector put on the freelist: the
		// ledger's expectation must not depend on the behaviour it checks.
		counted := map[types.Position]bool{}
		for _, k := range w.Keys {
			if _, present := w.Model[string(k.Digest)]; !present {
				continue
			}
			b, a := before[k.Name], after[k.Name]
			if !b.found || !a.found || a.blk == b.blk || a.content != b.content || counted[b.blk.Offset] {
				continue
			}
			counted[b.blk.Offset] = true
			w.relocs++
			if w.ledger != nil {
				w.ledger.superseded(b.blk, fmt.Sprintf("relocation of %s by op %d", k.Name, len(w.Trace)-1))
			}
		}
		// R1: the cycle relocated a record that no index entry referenced
		// (an orphan left by a crash, or a stale copy) and re-pointed some
		// entry at the copy.
		if len(pool) >= poolBefore {
			for _, m := range pool[poolBefore:] {
				if referenced[m.Offset] {
					continue
				}
				orphan := w.recordContent(m)
				if orphan == "" {
					continue
				}
				for _, name := range w.allNames() {
					b, a := before[name], after[name]
					if a.found && a.content == orphan && a.content != b.content {
						if w.Flags == nil {
							w.Flags = map[string]string{}
						}
						w.Flags["R1"] = fmt.Sprintf("primary GC relocated the record at %d, which no index entry referenced, and re-pointed the entry reached through %s at the copy (%s)", m.Offset, name, orphan)
					}
				}
			}
		}
	case OpReopen:
		if v := w.reopen(op.A); v != nil {
			return v
		}
	case OpRebits:
		if err := w.Close(); err != nil {
			return viol("call-error", "Close: %v", err)
		}
		w.Cfg.Bits = uint8(op.A)
		if err := w.Open(); err != nil {
			return viol("open-error", "reopen with %d index bits: %v", op.A, err)
		}
	}
	return nil
}

// gcPrimary runs one primary GC cycle and converts a panic inside it into an
// error so that the enumeration can go on (the panic itself is reported).
func (w *World) gcPrimary(mp *mhprimary.MultihashPrimary, ctx context.Context, lowUse int64) (n int64, err error) {
	defer func() {
		if r := recover(); r != nil {
			err = fmt.Errorf("panic: %v", r)
		}
	}()
	return mp.GC(ctx, lowUse)
}

func (w *World) reopen(mode int) *Violation {
	if err := w.Close(); err != nil {
		return viol("call-error", "Close: %v", err)
	}
	if mode == 3 {
		if err := w.S.Close(); err != nil {
			return viol("call-error", "second Close: %v", err)
		}
	}
	if _, open := w.FS.HandleCount(); open != 0 {
		hs := w.FS.OpenHandles()
		return violO("handles", "handle:leaked", "%d descriptors still open after Close: %v", open, hs)
	}
	switch mode {
	case 1:
		if w.real {
			vos.Remove(idxPath + ".buckets")
		}
		w.FS.RemoveRaw(idxPath + ".buckets")
	case 2:
		if data, ok := w.FS.ReadFileRaw(idxPath + ".buckets"); ok && len(data) > 0 {
			w.FS.WriteFileRaw(idxPath+".buckets", data[:len(data)-1])
		}
	}
	if err := w.Open(); err != nil {
		return viol("open-error", "reopen: %v", err)
	}
	return nil
}

// locate asks the index (not the store) where key k currently lives.
func (w *World) locate(k Key) (types.Block, bool) {
	if _, present := w.Model[string(k.Digest)]; !present {
		return types.Block{}, false
	}
	blk, found, err := w.idx().Get(k.Digest)
	if err != nil || !found {
		return types.Block{}, false
	}
	return blk, true
}

func (w *World) locateAll() map[string]types.Block {
	out := make(map[string]types.Block)
	for _, k := range w.Keys {
		if b, ok := w.locate(k); ok {
			out[string(k.Digest)] = b
		}
	}
	return out
}

func sortedModel(m map[string][]byte) string {
	keys := make([]string, 0, len(m))
	for k := range m {
		keys = append(keys, k)
	}
	sort.Strings(keys)
	var sb strings.Builder
	for _, k := range keys {
		fmt.Fprintf(&sb, "%x=%q ", k, m[k])
	}
	return sb.String()
}

// applyFlags turns the trace predicates the harness evaluated on this world
// into the violation's trigger (used for known-finding matching).
func applyFlags(w *World, v *Violation) {
	if w == nil || v == nil || len(w.Flags) == 0 {
		return
	}
	names := make([]string, 0, len(w.Flags))
	for n := range w.Flags {
		names = append(names, n)
	}
	sort.Strings(names)
	v.Trigger = strings.Join(names, "+")
	for _, n := range names {
		v.Detail += " [" + n + ": " + w.Flags[n] + "]"
	}
}
