package harness

import (
	"errors"
	"fmt"
	"io"
	"os"
	"path/filepath"
	"sort"
	"strings"
	"syscall"

	"github.com/ipld/go-storethehash/verifshim/vos"
)

// Shim fidelity: the same call scripts and the same sequential store
// histories are executed on MemFS and on the real operating system (inside a
// scratch directory) and every return value, error class and final directory
// image must agree. A disagreement is an infrastructure error (exit 2), never
// a VIOLATION.

func errClass(err error) string {
	switch {
	case err == nil:
		return "nil"
	case errors.Is(err, io.EOF):
		return "EOF"
	case errors.Is(err, io.ErrUnexpectedEOF):
		return "UnexpectedEOF"
	case errors.Is(err, os.ErrClosed):
		return "ErrClosed"
	case os.IsNotExist(err):
		return "NotExist"
	case errors.Is(err, syscall.EBADF):
		return "EBADF"
	case errors.Is(err, syscall.EISDIR):
		return "EISDIR"
	case errors.Is(err, syscall.ENOTEMPTY), errors.Is(err, syscall.EEXIST):
		return "NotEmptyOrExists"
	case errors.Is(err, syscall.EINVAL):
		return "EINVAL"
	case strings.Contains(err.Error(), "invalid use of WriteAt"):
		return "WriteAtOnAppend"
	}
	return "other"
}

type fidelityTrace []string

func (t *fidelityTrace) add(format string, args ...any) {
	*t = append(*t, fmt.Sprintf(format, args...))
}

// fidelityScripts exercises every semantic of DESIGN appendix B.
func fidelityScripts(t *fidelityTrace) {
	rd := func(f *vos.File, n int, off int64) {
		b := make([]byte, n)
		k, err := f.ReadAt(b, off)
		t.add("ReadAt(%d,%d) = %d %q %s", n, off, k, b[:k], errClass(err))
	}
	// 1. create / append / read semantics
	_, err := vos.OpenFile("/f/missing", vos.O_RDONLY, 0)
	t.add("open missing: %s", errClass(err))
	_, err = vos.OpenFile("/nodir/x", vos.O_RDWR|vos.O_CREATE, 0644)
	t.add("create in missing dir: %s", errClass(err))
	f, err := vos.OpenFile("/f/a", vos.O_RDWR|vos.O_APPEND|vos.O_CREATE, 0644)
	t.add("create a: %s name=%s", errClass(err), f.Name())
	n, err := f.Write([]byte("hello"))
	t.add("write: %d %s", n, errClass(err))
	p, err := f.Seek(0, io.SeekStart)
	t.add("seek: %d %s", p, errClass(err))
	n, err = f.Write([]byte("world"))
	t.add("append after seek: %d %s", n, errClass(err))
	rd(f, 10, 0)
	rd(f, 4, 8)
	rd(f, 4, 10)
	rd(f, 4, 100)
	rd(f, 0, 3)
	_, err = f.WriteAt([]byte("x"), 0)
	t.add("WriteAt on O_APPEND: %s", errClass(err))
	fi, err := f.Stat()
	t.add("fstat: %d %s", fi.Size(), errClass(err))
	p, err = f.Seek(0, io.SeekEnd)
	t.add("seek end: %d %s", p, errClass(err))
	p, err = f.Seek(3, io.SeekStart)
	t.add("seek 3: %d %s", p, errClass(err))
	b := make([]byte, 4)
	n, err = f.Read(b)
	t.add("read: %d %q %s", n, b[:n], errClass(err))
	_, err = io.ReadFull(f, make([]byte, 50))
	t.add("ReadFull beyond: %s", errClass(err))
	n, err = f.Read(b)
	t.add("read at EOF: %d %s", n, errClass(err))
	t.add("close: %s", errClass(f.Close()))
	t.add("double close: %s", errClass(f.Close()))
	_, err = f.ReadAt(b, 0)
	t.add("ReadAt after close: %s", errClass(err))
	_, err = f.Write(b)
	t.add("Write after close: %s", errClass(err))
	_, err = f.Stat()
	t.add("Stat after close: %s", errClass(err))
	// 2. modes
	r, _ := vos.OpenFile("/f/a", vos.O_RDONLY, 0)
	_, err = r.Write([]byte("x"))
	t.add("write on RDONLY: %s", errClass(err))
	t.add("truncate on RDONLY handle: %s", errClass(r.Truncate(1)))
	r.Close()
	wo, _ := vos.OpenFile("/f/a", vos.O_WRONLY, 0)
	_, err = wo.ReadAt(b, 0)
	t.add("ReadAt on WRONLY: %s", errClass(err))
	n, err = wo.Write([]byte("HE"))
	t.add("overwrite at pos 0: %d %s", n, errClass(err))
	n, err = wo.WriteAt([]byte("!!"), 12)
	t.add("WriteAt beyond end: %d %s", n, errClass(err))
	wo.Close()
	data, err := vos.ReadFile("/f/a")
	t.add("ReadFile: %q %s", data, errClass(err))
	// 3. truncate
	t.add("Truncate shrink: %s", errClass(vos.Truncate("/f/a", 3)))
	t.add("Truncate grow: %s", errClass(vos.Truncate("/f/a", 6)))
	data, _ = vos.ReadFile("/f/a")
	t.add("after truncates: %q", data)
	t.add("Truncate missing: %s", errClass(vos.Truncate("/f/nope", 0)))
	rw, _ := vos.OpenFile("/f/a", vos.O_RDWR, 0)
	t.add("ftruncate: %s", errClass(rw.Truncate(2)))
	rd(rw, 4, 0)
	rw.Close()
	tr, err := vos.OpenFile("/f/a", vos.O_WRONLY|vos.O_CREATE|vos.O_TRUNC, 0644)
	t.add("O_TRUNC open: %s", errClass(err))
	tr.Close()
	st, err := vos.Stat("/f/a")
	t.add("stat after O_TRUNC: %d %s", st.Size(), errClass(err))
	// 4. rename / remove with open handles
	vos.WriteFile("/f/b", []byte("bbbb"), 0644)
	vos.WriteFile("/f/c", []byte("cc"), 0644)
	hb, _ := vos.Open("/f/b")
	hc, _ := vos.Open("/f/c")
	t.add("rename b over c: %s", errClass(vos.Rename("/f/b", "/f/c")))
	rd(hb, 4, 0)
	rd(hc, 4, 0)
	data, err = vos.ReadFile("/f/c")
	t.add("c now: %q %s", data, errClass(err))
	_, err = vos.Stat("/f/b")
	t.add("stat b: %s", errClass(err))
	t.add("remove c: %s", errClass(vos.Remove("/f/c")))
	rd(hb, 2, 1)
	t.add("remove c again: %s", errClass(vos.Remove("/f/c")))
	hb.Close()
	hc.Close()
	t.add("rename missing: %s", errClass(vos.Rename("/f/zz", "/f/yy")))
	// a writer handle survives rename of its file
	hw, _ := vos.OpenFile("/f/w", vos.O_RDWR|vos.O_APPEND|vos.O_CREATE, 0644)
	hw.Write([]byte("one"))
	vos.Rename("/f/w", "/f/w.gc")
	hw.Write([]byte("two"))
	hw.Close()
	data, _ = vos.ReadFile("/f/w.gc")
	t.add("renamed while open: %q", data)
	_, err = vos.Stat("/f/w")
	t.add("old name: %s", errClass(err))
	// 5. directories
	t.add("MkdirAll: %s", errClass(vos.MkdirAll("/f/d1/d2", 0755)))
	t.add("MkdirAll again: %s", errClass(vos.MkdirAll("/f/d1/d2", 0755)))
	vos.WriteFile("/f/d1/d2/x", []byte("x"), 0644)
	t.add("remove non-empty dir: %s", errClass(vos.Remove("/f/d1")))
	di, err := vos.Stat("/f/d1")
	t.add("stat dir: %v %s", di != nil && di.IsDir(), errClass(err))
	_, err = vos.OpenFile("/f/d1", vos.O_RDWR, 0)
	t.add("open dir rw: %s", errClass(err))
	t.add("RemoveAll: %s", errClass(vos.RemoveAll("/f/d1")))
	t.add("RemoveAll missing: %s", errClass(vos.RemoveAll("/f/d1")))
	_, err = vos.Stat("/f/d1/d2/x")
	t.add("stat removed: %s", errClass(err))
	td, err := vos.MkdirTemp("/f", "new_index")
	t.add("MkdirTemp: %v %s", strings.HasPrefix(td, "/f/new_index"), errClass(err))
	vos.WriteFile(td+"/y", []byte("y"), 0644)
	data, err = vos.ReadFile(td + "/y")
	t.add("file in temp dir: %q %s", data, errClass(err))
	vos.RemoveAll(td)
	_, err = vos.MkdirTemp("/f/none", "p")
	t.add("MkdirTemp in missing dir: %s", errClass(err))
	// 6. Create / WriteFile
	cf, err := vos.Create("/f/cr")
	t.add("Create: %s", errClass(err))
	cf.Write([]byte("1234"))
	cf.Close()
	cf, _ = vos.Create("/f/cr")
	cf.Close()
	st, _ = vos.Stat("/f/cr")
	t.add("Create truncates: %d", st.Size())
	t.add("WriteFile missing dir: %s", errClass(vos.WriteFile("/f/none/x", nil, 0644)))
	_, err = vos.ReadFile("/f/none")
	t.add("ReadFile missing: %s", errClass(err))
	// 7. directory listings (ReadDir, Glob, WalkDir)
	vos.MkdirAll("/f/ls/sub", 0755)
	vos.WriteFile("/f/ls/b.tmp", []byte("b"), 0644)
	vos.WriteFile("/f/ls/a.1.tmp", []byte("aa"), 0644)
	vos.WriteFile("/f/ls/sub/c.tmp", nil, 0644)
	ents, err := vos.ReadDir("/f/ls")
	var names []string
	for _, e := range ents {
		names = append(names, fmt.Sprintf("%s/%v", e.Name(), e.IsDir()))
	}
	t.add("ReadDir: %v %s", names, errClass(err))
	_, err = vos.ReadDir("/f/ls/none")
	t.add("ReadDir missing: %s", errClass(err))
	ms, err := vos.Glob("/f/ls/*.tmp")
	t.add("Glob: %v %s", ms, errClass(err))
	ms, err = vos.Glob("/f/ls/a.*.tmp")
	t.add("Glob 2: %v %s", ms, errClass(err))
	ms, err = vos.Glob("/f/ls/zz*")
	t.add("Glob none: %v %s", ms, errClass(err))
	var walked []string
	err = vos.WalkDir("/f/ls", func(path string, d vos.DirEntry, err error) error {
		walked = append(walked, fmt.Sprintf("%s/%v", path, d != nil && d.IsDir()))
		return nil
	})
	t.add("WalkDir: %v %s", walked, errClass(err))
	vos.RemoveAll("/f/ls")
}

// fidelityImage lists the files under root with their contents (temp-dir
// suffixes normalised).
func realImage(root string) map[string]string {
	out := map[string]string{}
	filepath.Walk(root, func(p string, info os.FileInfo, err error) error {
		if err != nil || info.IsDir() {
			return nil
		}
		d, _ := os.ReadFile(p)
		out[strings.TrimPrefix(p, root)] = string(d)
		return nil
	})
	return out
}

func memImage(fs *vos.MemFS) map[string]string {
	out := map[string]string{}
	for p, d := range fs.Image().Files {
		out[p] = string(d)
	}
	return out
}

func diffImages(a, b map[string]string) string {
	var names []string
	for n := range a {
		names = append(names, n)
	}
	for n := range b {
		if _, ok := a[n]; !ok {
			names = append(names, n)
		}
	}
	sort.Strings(names)
	for _, n := range names {
		if a[n] != b[n] {
			_, ina := a[n]
			_, inb := b[n]
			return fmt.Sprintf("%s: MemFS present=%v (%d bytes), real present=%v (%d bytes)", n, ina, len(a[n]), inb, len(b[n]))
		}
	}
	return ""
}

func runFidelity(c *Collector) {
	if c.job.Shard != 0 {
		return
	}
	root, err := os.MkdirTemp(os.Getenv("VERIF_RACE_DIR"), "fidelity")
	if err != nil {
		c.res.InfraError = "fidelity: " + err.Error()
		return
	}
	defer os.RemoveAll(root)
	defer vos.SetRealRoot("")
	fail := func(format string, args ...any) {
		c.res.InfraError = "MemFS does not match the real file system: " + fmt.Sprintf(format, args...)
	}
	// 1. call scripts
	var tm, tr fidelityTrace
	mfs := vos.NewMemFS()
	mfs.MkdirRaw("/f")
	vos.SetBackend(mfs)
	fidelityScripts(&tm)
	vos.SetBackend(nil)
	rr := filepath.Join(root, "scripts")
	os.MkdirAll(rr+"/f", 0o755)
	vos.SetRealRoot(rr)
	fidelityScripts(&tr)
	vos.SetRealRoot("")
	c.res.Evaluations++
	for i := range tm {
		c.res.Transitions++
		if i >= len(tr) || tm[i] != tr[i] {
			other := "<missing>"
			if i < len(tr) {
				other = tr[i]
			}
			fail("script step %d: MemFS %q, real %q", i, tm[i], other)
			return
		}
	}
	if d := diffImages(memImage(mfs), realImage(rr)); d != "" {
		fail("final images of the scripts differ: %s", d)
		return
	}
	c.count("fidelity.script_steps", int64(len(tm)))
	// 2. sequential store histories: same observations, same files
	hists := [][]Op{}
	alpha := gcAlphabet("quick")
	for _, pre := range gcPreambles() {
		hists = append(hists, pre)
		for _, a := range alpha {
			hists = append(hists, append(append([]Op{}, pre...), a))
			for _, b := range []Op{opF, {Kind: OpPriGC, A: 0}, {Kind: OpIdxGC, B: true}, {Kind: OpReopen, A: 1}} {
				hists = append(hists, append(append([]Op{}, pre...), a, b))
			}
		}
	}
	n := 0
	for _, cc := range []Config{cfg("mh", false, 8, 1, 1), cfg("mh", false, 8, 48, 48), cfg("cid", false, 8, 48, bigFile)} {
		for hi, h := range hists {
			if hi%3 != n%3 && len(h) > 6 {
				continue
			}
			n++
			run := func(real bool) (obs []string, img map[string]string, ok bool) {
				var w *World
				var err error
				if real {
					rr := filepath.Join(root, fmt.Sprintf("h%d", n))
					os.MkdirAll(rr+"/s", 0o755)
					w = &World{Cfg: cc, FS: vos.NewMemFS(), Model: map[string][]byte{}, GCInt: 1000 * 3600e9, Sync: 1000 * 3600e9}
					w.Keys, w.Probes = universe(cc)
					vos.SetRealRoot(rr)
					w.real = true
					setMapOrder(cc)
					err = w.Open()
					defer func() {
						vos.SetRealRoot("")
						os.RemoveAll(rr)
					}()
					defer func() { img = realImage(rr) }()
				} else {
					w, err = NewWorld(cc)
					defer func() { img = memImage(w.FS) }()
				}
				if err != nil {
					return nil, nil, false
				}
				for _, op := range h {
					if v := w.Step(op); v != nil {
						obs = append(obs, "VIOL:"+v.Symptom)
						break
					}
					obs = append(obs, strings.Join(observeStore(w), ","))
				}
				w.Close()
				return obs, nil, true
			}
			om, im, ok1 := run(false)
			or, ir, ok2 := run(true)
			c.res.Evaluations++
			c.res.Transitions += int64(len(h))
			if !ok1 || !ok2 {
				fail("history %s on %s: open failed (MemFS ok=%v, real ok=%v)", opsString(h), cc, ok1, ok2)
				return
			}
			if strings.Join(om, "|") != strings.Join(or, "|") {
				fail("history %s on %s: observations differ\n MemFS: %v\n real:  %v", opsString(h), cc, om, or)
				return
			}
			if d := diffImages(im, ir); d != "" {
				fail("history %s on %s: final directory images differ: %s", opsString(h), cc, d)
				return
			}
			c.stateKey(fmt.Sprintf("%v", im))
		}
	}
	c.count("fidelity.store_histories", int64(n))
	c.count("nontrivial", int64(n))
	c.res.Engine = "shim fidelity: call scripts and sequential store histories on MemFS vs the real file system"
	c.res.Rule = "every return value, error class and final directory image must agree"
	c.res.Bound = fmt.Sprintf("%d script steps, %d store histories x 3 configurations", len(tm), n)
	c.sample(map[string]any{"script_steps": []string(tm[:6])})
}
