package harness

import (
	"fmt"
	"sort"

	"github.com/ipld/go-storethehash/store/types"
	"github.com/ipld/go-storethehash/verifshim/vos"
)

// Ledger is the freed-location oracle of C13. The harness tells it every
// primary location that stopped being current (and why); Check compares that
// with what the store actually recorded on its freelist, read from the MemFS
// mutation log (every byte ever appended to the freelist file, every batch
// handed to the primary GC) plus the unflushed pool.
type Ledger struct {
	// concurrent: the ledger belongs to an engine-A execution
	concurrent bool
	expected   []freed
	// everCurrent holds every location the index ever returned for a present
	// key. A recorded location outside this set was never current (the copy
	// made by a relocation that the index refused): the statement allows it,
	// at most once.
	everCurrent map[flEntry]bool
}

func (l *Ledger) markCurrent(b types.Block) {
	if l.everCurrent == nil {
		l.everCurrent = map[flEntry]bool{}
	}
	l.everCurrent[flEntry{uint64(b.Offset), uint32(b.Size)}] = true
}

func (l *Ledger) noteCurrent(w *World) {
	if l.everCurrent == nil {
		l.everCurrent = map[flEntry]bool{}
	}
	for _, b := range w.locateAll() {
		l.everCurrent[flEntry{uint64(b.Offset), uint32(b.Size)}] = true
	}
}

type freed struct {
	loc types.Block
	why string
}

func (l *Ledger) superseded(loc types.Block, why string) {
	l.expected = append(l.expected, freed{loc, why})
}

func (l *Ledger) noFree(string) {}

type flEntry struct {
	Off  uint64
	Size uint32
}

// freelistHistory scans the mutation log and returns every entry ever
// appended to the freelist file and the batches presented to the primary GC
// (content of the .gc file at the moment it was removed).
func freelistHistory(fs *vos.MemFS) (recorded []flEntry, batches [][]flEntry, partial bool) {
	flName := idxPath + ".free"
	gcName := flName + ".gc"
	content := map[int][]byte{} // by inode
	names := map[string]int{}
	if base := fs.Base(); base != nil {
		for p, id := range base.Inos {
			if p == flName || p == gcName {
				names[p] = id
				content[id] = append([]byte(nil), base.Files[p]...)
			}
		}
	}
	if id, ok := names[flName]; ok {
		ents, full := parseFL(content[id])
		recorded = append(recorded, ents...)
		partial = partial || !full
	}
	if id, ok := names[gcName]; ok {
		ents, full := parseFL(content[id])
		recorded = append(recorded, ents...)
		partial = partial || !full
	}
	for _, m := range fs.Log() {
		switch m.Kind {
		case vos.MCreate:
			if m.Path == flName || m.Path == gcName {
				names[m.Path] = m.Ino
				content[m.Ino] = nil
			}
		case vos.MWrite:
			if _, ok := content[m.Ino]; ok {
				c := content[m.Ino]
				end := int(m.Off) + len(m.Data)
				for len(c) < end {
					c = append(c, 0)
				}
				copy(c[m.Off:], m.Data)
				content[m.Ino] = c
				ents, full := parseFL(m.Data)
				recorded = append(recorded, ents...)
				partial = partial || !full
			}
		case vos.MTrunc:
			if c, ok := content[m.Ino]; ok && int64(len(c)) > m.Size {
				content[m.Ino] = c[:m.Size]
			}
		case vos.MRename:
			if id, ok := names[m.Path]; ok {
				delete(names, m.Path)
				if m.Path2 == flName || m.Path2 == gcName {
					names[m.Path2] = id
				}
			}
		case vos.MRemove:
			if id, ok := names[m.Path]; ok {
				if m.Path == gcName {
					ents, _ := parseFL(content[id])
					batches = append(batches, ents)
				}
				delete(names, m.Path)
			}
		}
	}
	return recorded, batches, partial
}

func parseFL(data []byte) ([]flEntry, bool) {
	ents, full := parseFreeList(data)
	out := make([]flEntry, len(ents))
	for i, e := range ents {
		out[i] = flEntry{e.Off, e.Size}
	}
	return out, full
}

// Check compares recorded with expected. current lists the locations that are
// current now. gcComplete says a primary GC cycle ran after everything was
// flushed, so every recorded entry must have been presented exactly once.
func (l *Ledger) Check(w *World, gcComplete bool) *Violation {
	recorded, batches, partial := freelistHistory(w.FS)
	if partial {
		return violO("ledger", "ledger:spurious", "freelist file received a write that is not a whole number of 12-byte entries")
	}
	for _, b := range w.S.VerifFreelist().VerifPool() {
		recorded = append(recorded, flEntry{uint64(b.Offset), uint32(b.Size)})
	}
	exp := map[flEntry]int{}
	why := map[flEntry]string{}
	for _, f := range l.expected {
		e := flEntry{uint64(f.loc.Offset), uint32(f.loc.Size)}
		exp[e]++
		why[e] = f.why
	}
	rec := map[flEntry]int{}
	for _, e := range recorded {
		rec[e]++
	}
	keys := make([]flEntry, 0, len(exp)+len(rec))
	for e := range exp {
		keys = append(keys, e)
	}
	for e := range rec {
		if _, ok := exp[e]; !ok {
			keys = append(keys, e)
		}
	}
	sort.Slice(keys, func(i, j int) bool { return keys[i].Off < keys[j].Off })
	for _, e := range keys {
		switch {
		case rec[e] < exp[e]:
			return violO("ledger", "ledger:missing", "location %d (size %d) stopped being current (%s) %d time(s) but was recorded on the freelist %d time(s)", e.Off, e.Size, why[e], exp[e], rec[e])
		case exp[e] == 0 && !l.everCurrent[e]:
			if rec[e] > 1 {
				return violO("ledger", "ledger:double", "location %d (size %d), which was never current, was recorded on the freelist %d times", e.Off, e.Size, rec[e])
			}
		case exp[e] == 0:
			return violO("ledger", "ledger:spurious", "location %d (size %d) was recorded on the freelist although it never stopped being current", e.Off, e.Size)
		case rec[e] > exp[e]:
			return violO("ledger", "ledger:double", "location %d (size %d) (%s) was recorded on the freelist %d times", e.Off, e.Size, why[e], rec[e])
		}
	}
	cur := w.locateAll()
	for d, b := range cur {
		e := flEntry{uint64(b.Offset), uint32(b.Size)}
		if rec[e] > 0 {
			return violO("ledger", "ledger:premature", "location %d of present key %x is recorded on the freelist", e.Off, d)
		}
	}
	presented := map[flEntry]int{}
	for _, b := range batches {
		for _, e := range b {
			presented[e]++
		}
	}
	for e, n := range presented {
		if n > rec[e] {
			return violO("ledger", "ledger:double", "location %d was presented to the primary GC %d times but recorded %d time(s)", e.Off, n, rec[e])
		}
	}
	if gcComplete {
		// what was presented must also have been applied: the record is
		// marked deleted, or lies beyond a truncation / in an unlinked file
		view := loadFsck(w.FS, w.Cfg)
		for e := range presented {
			if w.Cfg.Primary == "cid" || w.ledger.concurrent {
				// (under concurrency a commit can flush a freelist entry
				// that was added after its primary flush; the collector then
				// cannot apply it. The statement is about recording and
				// presenting, so this is counted, not alarmed on.)
				break
			}
			if pr, _ := view.findPrimary(e.Off); pr != nil && !pr.Deleted {
				return violO("ledger", "ledger:not-applied", "location %d (size %d) (%s) was presented to the primary GC but its record (size %d) is still not marked deleted", e.Off, e.Size, why[e], pr.Size)
			}
		}
		for e, n := range rec {
			if presented[e] != n {
				return violO("ledger", "ledger:missing", "location %d (%s) was recorded %d time(s) but presented to the primary GC %d time(s) after a complete cycle", e.Off, why[e], n, presented[e])
			}
		}
	}
	return nil
}

func (l *Ledger) String() string { return fmt.Sprintf("%d expected frees", len(l.expected)) }
