package harness

import "github.com/ipld/go-storethehash/store/types"

// Ledger records which primary locations stopped being current (C13); the
// comparison with what the store recorded on its freelist is in ledger_check.go.
type Ledger struct {
	expected []freed
}

type freed struct {
	loc types.Block
	why string
}

func (l *Ledger) superseded(loc types.Block, why string) {
	l.expected = append(l.expected, freed{loc, why})
}

func (l *Ledger) noFree(string) {}
