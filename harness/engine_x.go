package harness

import (
	"bytes"
	"fmt"
	"sort"
	"strings"

	"github.com/ipld/go-storethehash/verifshim/vos"
)

// Engine X — crash-image enumerator. A history is executed once on the real
// store over a logging MemFS. For every point between two consecutive
// file-system mutations of the history's last operation (earlier operations'
// crash points belong to the shorter histories, which are enumerated too),
// and for every torn prefix of every write, the directory image is rebuilt
// from the mutation log, the store is reopened on it and the recovery oracle
// of C03 is applied, followed by a continuation battery.

type CrashScenario struct {
	Prop     string
	Name     string
	Cfg      Config
	Preamble []Op
	Alphabet []Op
	Depth    int
	Allow    func(hist []Op) bool
	Oracles  []string // "crash" (recovery + continuation), "fsck"
	// OpenCfg, if set, is the configuration used to reopen crash images
	// (C09: different bit size).
	Recover func(sc *CrashScenario, img vos.Image, info crashInfo, c *Collector) *Violation
	// Base, if set, is the directory image the store is first opened on
	// (C10: a legacy store); Want is the content that open must produce.
	Base       *vos.Image
	Want       map[string][]byte
	BaseKeys   []Key
	BaseProbes []Key
	// Dropped: the base image is a legacy store with entries whose primary
	// data no longer exists (trace predicate for known-finding matching).
	Dropped bool
	// SkipEmpty: do not explore the crash points of the preamble's last op.
	SkipEmpty bool
	// only restricts exploration to one crash image (replay).
	only *replaySpec
}

type crashInfo struct {
	hist     []Op           // preamble + enumerated ops
	inFlight int            // index of the op in flight
	flushed  int            // index of the last completed Flush/Close before it (-1: none)
	models   []map[string][]byte // models[i+1] = model after op i; models[0] = empty
	p, torn  int
	next     *vos.Mut // mutation that was about to be applied (or was torn)
	prev     *vos.Mut
	keys     []Key
	probes   []Key
	// allowedFn, if set, replaces the allowed-value sets derived from a
	// sequential history (engine A+X: derived from a concurrent call history)
	allowedFn func(k Key) ([][]byte, bool)
}

func (ci crashInfo) allowed(k Key) (vals [][]byte, absentOK bool) {
	if ci.allowedFn != nil {
		return ci.allowedFn(k)
	}
	for j := ci.flushed; j <= ci.inFlight; j++ {
		m := ci.models[j+1]
		if v, ok := m[string(k.Digest)]; ok {
			dup := false
			for _, x := range vals {
				if bytes.Equal(x, v) {
					dup = true
				}
			}
			if !dup {
				vals = append(vals, v)
			}
		} else {
			absentOK = true
		}
	}
	return
}

func copyModel(m map[string][]byte) map[string][]byte {
	out := make(map[string][]byte, len(m))
	for k, v := range m {
		out[k] = v
	}
	return out
}

func isFlushing(o Op) bool { return o.Kind == OpFlush || o.Kind == OpReopen }

// tornPoints lists the byte counts at which a write of n bytes is torn: every
// proper prefix for short writes, a structured subset for long ones.
func tornPoints(n int) (pts []int, capped bool) {
	if n <= 1 {
		return nil, false
	}
	if n <= 64 {
		for i := 1; i < n; i++ {
			pts = append(pts, i)
		}
		return pts, false
	}
	set := map[int]bool{}
	for _, i := range []int{1, 3, 4, 5, 7, 8, 9, 12, 13, 16, 17, n / 2, n - 17, n - 13, n - 12, n - 9, n - 8, n - 5, n - 4, n - 1} {
		if i > 0 && i < n {
			set[i] = true
		}
	}
	for i := 64; i < n; i += 64 {
		set[i] = true
	}
	for i := range set {
		pts = append(pts, i)
	}
	sort.Ints(pts)
	return pts, true
}

func mutSiteInner(m *vos.Mut) string {
	if m == nil {
		return "-"
	}
	inner, _, _ := strings.Cut(m.Site, "<")
	return inner
}

// newLoggedWorld is NewWorld with mutation logging (and call sites) switched
// on before the very first Open, so that even the creation of the store is
// made of crash points.
func newLoggedWorld(c Config, base *vos.Image) (*World, error) {
	w := &World{Cfg: c, FS: vos.NewMemFS(), Model: make(map[string][]byte), GCInt: 1000 * 3600e9, Sync: 1000 * 3600e9}
	if base != nil {
		w.FS = vos.FromImage(*base)
	}
	w.FS.MkdirRaw("/s")
	w.Keys, w.Probes = universe(c)
	vos.SetBackend(w.FS)
	setMapOrder(c)
	w.FS.StartLog(true)
	w.FS.SetTag(-1)
	if err := w.Open(); err != nil {
		return nil, err
	}
	return w, nil
}

func (sc *CrashScenario) owns(v *Violation) bool {
	if len(sc.Oracles) == 0 {
		return v.Oracle == "crash"
	}
	for _, o := range sc.Oracles {
		if o == v.Oracle {
			return true
		}
	}
	return false
}

// crashHistory runs one history and explores the crash points of its last op
// (for the empty history: of the initial Open).
func (sc *CrashScenario) crashHistory(hist []Op, c *Collector, seen map[[40]byte]struct{}) (failed bool) {
	full := append(append([]Op{}, sc.Preamble...), hist...)
	var w *World
	var runErr *Violation
	var marks []int // log length after the initial Open and after each op
	var models []map[string][]byte
	func() {
		defer func() {
			if r := recover(); r != nil {
				runErr = viol("panic", "panic: %v", r)
				if w != nil {
					w.opened = false
				}
			}
		}()
		var err error
		w, err = newLoggedWorld(sc.Cfg, sc.Base)
		if err != nil {
			runErr = viol("open-error", "open: %v", err)
			return
		}
		if sc.BaseKeys != nil {
			w.Keys, w.Probes = sc.BaseKeys, sc.BaseProbes
		}
		if sc.Want != nil {
			w.Model = copyModel(sc.Want)
		}
		models = append(models, copyModel(w.Model))
		marks = append(marks, w.FS.LogLen())
		for _, op := range full {
			c.res.Transitions++
			if v := w.Step(op); v != nil {
				runErr = v
				return
			}
			marks = append(marks, w.FS.LogLen())
			models = append(models, copyModel(w.Model))
		}
	}()
	if w == nil {
		return true
	}
	base := w.FS.Base()
	log := w.FS.Log()
	keys, probes := w.Keys, w.Probes
	w.Close()
	if runErr != nil {
		// The uncrashed history already misbehaves: not this oracle's
		// business (C01/C04 report it); do not extend.
		c.count("foreign_oracle_verdicts_ignored", 1)
		return true
	}
	// crash points of the last op: marks[i] is the log length before op i
	// (marks[0] = after the initial Open), marks[i+1] after it.
	inFlight := len(full) - 1
	lo, hi := 0, marks[0]
	if len(full) > 0 {
		lo, hi = marks[len(full)-1], marks[len(full)]
	}
	flushed := -1
	for j := inFlight - 1; j >= 0; j-- {
		if isFlushing(full[j]) {
			flushed = j
			break
		}
	}
	info := crashInfo{hist: full, inFlight: inFlight, flushed: flushed, models: models, keys: keys, probes: probes}
	anyViol := false
	check := func(p, torn int) {
		img := vos.CrashImage(base, log, p, torn)
		d := img.Digest()
		var key [40]byte
		copy(key[:], d[:])
		// At the last crash point the op in flight has returned: if it is a
		// Flush or a Close+Open, what it acknowledged is the new durable floor.
		flushed := flushed
		if p == hi && torn < 0 && inFlight >= 0 && isFlushing(full[inFlight]) {
			flushed = inFlight
		}
		info.flushed = flushed
		// the verdict depends on the image and on the allowed sets
		sig := fmt.Sprintf("%d/%d/%s", flushed, inFlight, sortedModel(models[len(models)-1]))
		if flushed >= 0 {
			sig += sortedModel(models[flushed+1])
		}
		h := fnv64(sig)
		for i := 0; i < 8; i++ {
			key[32+i] = byte(h >> (8 * i))
		}
		c.count("crash_images", 1)
		if _, dup := seen[key]; dup {
			c.count("crash_images_deduplicated", 1)
			return
		}
		seen[key] = struct{}{}
		info.p, info.torn = p, torn
		info.next, info.prev = nil, nil
		if p < len(log) {
			info.next = &log[p]
		}
		if p > 0 {
			info.prev = &log[p-1]
		}
		c.res.Evaluations++
		c.state(d)
		if torn >= 0 {
			c.count("torn_images", 1)
		}
		rec := sc.Recover
		if rec == nil {
			rec = recoverC03
		}
		v := rec(sc, img, info, c)
		if v == nil {
			return
		}
		if !sc.owns(v) {
			c.count("foreign_oracle_verdicts_ignored", 1)
			return
		}
		v.Property = sc.Prop
		v.Config = sc.Cfg.String()
		v.History = opsString(full)
		opName := "Open"
		if inFlight >= 0 {
			opName = full[inFlight].kindName()
		}
		if v.Trigger == "" {
			v.Trigger = "crash-in:" + opName
		}
		if v.Culprit == "" {
			v.Culprit = "before:" + mutSiteInner(info.next)
			if torn >= 0 {
				v.Culprit = "torn:" + mutSiteInner(info.next)
			}
		}
		where := fmt.Sprintf("crash before mutation %d/%d", p, len(log))
		if torn >= 0 {
			where = fmt.Sprintf("mutation %d/%d torn after %d of %d bytes", p, len(log), torn, len(log[p].Data))
		}
		if info.prev != nil {
			where += "; last applied: " + info.prev.String()
		}
		if info.next != nil {
			where += "; next: " + info.next.String()
		}
		v.Detail = where + " => " + v.Detail
		v.Replay = map[string]any{"engine": "X", "scenario": sc.Name, "config": sc.Cfg, "preamble": sc.Preamble, "ops": append([]Op{}, hist...), "crash_before_mutation": p, "torn_bytes": torn}
		c.violation(v, len(full)*100000+p)
	}
	if sc.only != nil {
		verbose = true
		check(sc.only.CrashAt, sc.only.Torn)
		verbose = false
		return false
	}
	for p := lo; p <= hi; p++ {
		if c.expired() {
			break
		}
		check(p, -1)
		if p < hi && log[p].Kind == vos.MWrite {
			pts, capped := tornPoints(len(log[p].Data))
			if capped {
				c.count("torn_writes_with_capped_prefix_set", 1)
			}
			for _, t := range pts {
				check(p, t)
			}
		}
	}
	if c.res.Evaluations%200 == 1 {
		c.sample(map[string]any{"config": sc.Cfg.String(), "history": opsString(full), "crash_points": hi - lo + 1, "mutation_log_len": len(log)})
	}
	return anyViol
}

// verbose makes the continuation print every step (replay mode).
var verbose bool

func fnv64(s string) uint64 {
	h := uint64(14695981039346656037)
	for i := 0; i < len(s); i++ {
		h ^= uint64(s[i])
		h *= 1099511628211
	}
	return h
}

func (o Op) kindName() string {
	s := o.String()
	if i := strings.IndexAny(s, "(["); i >= 0 {
		return s[:i]
	}
	return s
}

// recoverC03 reopens the crash image and applies C03's oracle.
func recoverC03(sc *CrashScenario, img vos.Image, info crashInfo, c *Collector) (v *Violation) {
	fw := &World{Cfg: sc.Cfg, FS: vos.FromImage(img), Model: map[string][]byte{}, GCInt: 1000 * 3600e9, Sync: 1000 * 3600e9, Keys: info.keys, Probes: info.probes, crashed: true}
	defer func() {
		if r := recover(); r != nil {
			v = violO("crash", "panic", "panic after recovery: %v", r)
			fw.opened = false
		}
		func() {
			defer func() { recover() }()
			fw.Close()
		}()
	}()
	setMapOrder(sc.Cfg)
	fw.FS.StartLog(true)
	if err := fw.Open(); err != nil {
		return violO("crash", "open-error", "open after crash: %v", err)
	}
	// Crash during recovery: the reopening itself mutates the directory
	// (torn tails cut off, snapshot consumed, headers rewritten). Every crash
	// point and torn write of *that* is recovered once more (depth 2) and
	// must satisfy the same allowed-value sets.
	if rlog := fw.FS.Log(); len(rlog) > 0 && sc.ownsOracle("crash") {
		rbase := fw.FS.Base()
		rlogCopy := append([]vos.Mut(nil), rlog...)
		if v2 := sc.recoverAgain(rbase, rlogCopy, info, c); v2 != nil {
			vos.SetBackend(fw.FS)
			return v2
		}
		vos.SetBackend(fw.FS)
	}
	// (b) every key reads an allowed value
	for _, ks := range [][]Key{info.keys, info.probes} {
		for _, k := range ks {
			got, found, err := fw.S.Get(k.Raw)
			if err != nil {
				return violO("crash", "call-error", "Get(%s) after recovery: %v", k.Name, err)
			}
			vals, absentOK := info.allowed(k)
			if !found {
				if !absentOK {
					return violO("crash", "key-lost", "Get(%s) after recovery: absent, but the key was present at the last completed flush and not removed since (allowed: %q)", k.Name, vals)
				}
				continue
			}
			ok := false
			for _, x := range vals {
				if bytes.Equal(x, got) {
					ok = true
				}
			}
			if !ok {
				sym := "wrong-value"
				if len(vals) == 0 {
					sym = "key-resurrected"
				}
				return violO("crash", sym, "Get(%s) after recovery = %q, allowed values %q (absent allowed: %v)", k.Name, got, vals, absentOK)
			}
			fw.Model[string(k.Digest)] = append([]byte{}, got...)
		}
	}
	if verbose {
		fmt.Printf("  recovered model=%s files=%v\n", sortedModel(fw.Model), fw.FS.Names())
	}
	// fsck of the recovered state (C07's verdict)
	if v := fw.Step(Op{Kind: OpFlush}); v != nil {
		v.Oracle = "crash"
		v.Detail = "continuation after recovery: " + v.Detail
		return v
	}
	if fv := fw.FsckOpen(); fv != nil {
		fv.Detail = "after recovery: " + fv.Detail
		if sc.ownsOracle("fsck") {
			return fv
		}
		c.count("foreign_oracle_verdicts_ignored", 1)
	}
	if !sc.ownsOracle("crash") {
		return nil
	}
	// (c) the recovered store keeps behaving like a map, through GC and reopen
	cont := []Op{
		{Kind: OpReads},
		{Kind: OpPut, K: 0, V: 3}, {Kind: OpRemove, K: 1}, {Kind: OpPut, K: 4, V: 1},
		{Kind: OpFlush}, {Kind: OpIdxGC, B: true}, {Kind: OpPriGC, A: 0}, {Kind: OpPriGC, A: 0},
		{Kind: OpFlush}, {Kind: OpReads}, {Kind: OpIterate},
		{Kind: OpReopen, A: 1}, {Kind: OpReads},
	}
	if sc.Cfg.Immutable {
		cont[1] = Op{Kind: OpRemove, K: 0}
	}
	for _, op := range cont {
		c.res.Transitions++
		if verbose {
			fmt.Printf("  continuation %s; model=%s\n", op, sortedModel(fw.Model))
		}
		if v := fw.Step(op); v != nil {
			v.Oracle = "crash"
			v.Detail = fmt.Sprintf("continuation after recovery (%s): %s", op, v.Detail)
			v.Symptom = "post-recovery:" + v.Symptom
			applyFlags(fw, v)
			if v.Trigger != "" {
				// root cause identified by a trace predicate: the crash site
				// is incidental
				v.Culprit = "continuation"
			}
			return v
		}
	}
	return nil
}

func (sc *CrashScenario) ownsOracle(o string) bool {
	if len(sc.Oracles) == 0 {
		return o == "crash"
	}
	for _, x := range sc.Oracles {
		if x == o {
			return true
		}
	}
	return false
}

func (sc *CrashScenario) enumerate(c *Collector, unit *int, seen map[[40]byte]struct{}) {
	var hist []Op
	var rec func(depth int, mine bool)
	rec = func(depth int, mine bool) {
		if c.expired() {
			return
		}
		if depth <= 2 {
			mine = (*unit)%c.job.NShards == c.job.Shard
			*unit++
		}
		failed := false
		if mine && !(sc.SkipEmpty && depth == 0) {
			failed = sc.crashHistory(hist, c, seen)
			c.count("histories", 1)
		}
		if depth == sc.Depth || failed {
			return
		}
		for _, op := range sc.Alphabet {
			hist = append(hist, op)
			if sc.Allow == nil || sc.Allow(hist) {
				rec(depth+1, mine)
			}
			hist = hist[:len(hist)-1]
		}
	}
	rec(0, false)
}

func runCrashScenarios(c *Collector, scs []*CrashScenario) {
	unit := 0
	seen := make(map[[40]byte]struct{})
	for _, sc := range scs {
		sc.enumerate(c, &unit, seen)
		if c.expired() {
			break
		}
	}
	c.res.Engine = "X (crash-image enumerator over the MemFS mutation log of real executions; recovery by the real OpenStore)"
	c.res.Bound = fmt.Sprintf("%d scenarios; all histories up to the per-scenario depth; every crash point and torn prefix of the last op of every history", len(scs))
}


// recoverAgain enumerates the crash points of a recovery (depth 2).
func (sc *CrashScenario) recoverAgain(base *vos.Image, rlog []vos.Mut, info crashInfo, c *Collector) *Violation {
	check := func(p, torn int) *Violation {
		img := vos.CrashImage(base, rlog, p, torn)
		c.count("crash_images_depth2", 1)
		w2 := &World{Cfg: sc.Cfg, FS: vos.FromImage(img), Model: map[string][]byte{}, GCInt: 1000 * 3600e9, Sync: 1000 * 3600e9, Keys: info.keys, Probes: info.probes, crashed: true}
		var v *Violation
		func() {
			defer func() {
				if r := recover(); r != nil {
					v = violO("crash", "panic", "panic recovering from a crash during recovery: %v", r)
					w2.opened = false
				}
				func() {
					defer func() { recover() }()
					w2.Close()
				}()
			}()
			if err := w2.Open(); err != nil {
				v = violO("crash", "open-error", "open after a crash during recovery: %v", err)
				return
			}
			for _, ks := range [][]Key{info.keys, info.probes} {
				for _, k := range ks {
					got, found, err := w2.S.Get(k.Raw)
					if err != nil {
						v = violO("crash", "call-error", "Get(%s) after a crash during recovery: %v", k.Name, err)
						return
					}
					vals, absentOK := info.allowed(k)
					if !found {
						if !absentOK {
							v = violO("crash", "key-lost", "Get(%s) after a crash during recovery: absent (allowed: %q)", k.Name, vals)
							return
						}
						continue
					}
					ok := false
					for _, x := range vals {
						if bytes.Equal(x, got) {
							ok = true
						}
					}
					if !ok {
						v = violO("crash", "wrong-value", "Get(%s) after a crash during recovery = %q, allowed %q (absent allowed: %v)", k.Name, got, vals, absentOK)
						return
					}
				}
			}
		}()
		if v != nil {
			where := fmt.Sprintf("second crash before mutation %d/%d of the recovery", p, len(rlog))
			if torn >= 0 {
				where = fmt.Sprintf("recovery mutation %d/%d torn after %d bytes", p, len(rlog), torn)
			}
			if p < len(rlog) {
				where += " (" + rlog[p].String() + ")"
				v.Culprit = "recovery:" + mutSiteInner(&rlog[p])
			}
			v.Detail = where + ": " + v.Detail
			v.Trigger = "crash-during-recovery"
		}
		return v
	}
	for p := 0; p < len(rlog); p++ {
		if v := check(p, -1); v != nil {
			return v
		}
		if rlog[p].Kind == vos.MWrite {
			pts, _ := tornPoints(len(rlog[p].Data))
			for _, t := range pts {
				if v := check(p, t); v != nil {
					return v
				}
			}
		}
	}
	return nil
}
