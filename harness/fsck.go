package harness

import (
	"bytes"
	"encoding/binary"
	"encoding/json"
	"fmt"
	"sort"

	"github.com/ipfs/go-cid"
	"github.com/ipld/go-storethehash/verifshim/vos"
	"github.com/multiformats/go-multihash"
)

// fsck is an independent reader of every on-disk structure of the store. It
// shares no code with the repository: formats are re-implemented here from the
// documentation comments in the source.

const delBit = uint32(1) << 31

type idxHeader struct {
	Version         int
	BucketsBits     byte
	MaxFileSize     uint32
	FirstFile       uint32
	PrimaryFileSize uint32
}

type priHeader struct {
	Version     int
	MaxFileSize uint32
	FirstFile   uint32
}

type idxEntry struct {
	Off    uint64
	Size   uint32
	Prefix []byte
}

type idxRecord struct {
	File    uint32
	Pos     int64 // local offset of the size word
	Size    uint32
	Deleted bool
	Bucket  uint32
	Entries []idxEntry
	Raw     []byte // bucket tag + entries
	BadList bool   // entries did not parse
}

type priRecord struct {
	File    uint32
	Pos     int64
	Size    uint32
	Deleted bool
	Key     []byte // raw stored key (multihash or CID bytes)
	Digest  []byte
	Value   []byte
	Bad     string
}

// FsckDefect is one violated invariant.
type FsckDefect struct {
	Class  string // F1..F5, HDR
	Detail string
}

func (d FsckDefect) String() string { return d.Class + ": " + d.Detail }

type fsckView struct {
	fs      *vos.MemFS
	cfg     Config
	ih      idxHeader
	ph      priHeader
	hasIH   bool
	hasPH   bool
	idxRecs map[uint32][]idxRecord // by file
	idxSize map[uint32]int64
	priRecs map[uint32][]priRecord
	priSize map[uint32]int64
	idxTorn map[uint32]int64 // first offset that does not parse (-1: file walks to its end)
	priTorn map[uint32]int64
	free    []idxEntry // freelist file entries (Off,Size)
	freeGC  []idxEntry
	defects []FsckDefect
}

func (v *fsckView) bad(class, format string, args ...any) {
	v.defects = append(v.defects, FsckDefect{class, fmt.Sprintf(format, args...)})
}

func parseEntries(b []byte) ([]idxEntry, bool) {
	var out []idxEntry
	for len(b) > 0 {
		if len(b) < 13 {
			return out, false
		}
		kl := int(b[12])
		if len(b) < 13+kl {
			return out, false
		}
		out = append(out, idxEntry{
			Off:    binary.LittleEndian.Uint64(b),
			Size:   binary.LittleEndian.Uint32(b[8:]),
			Prefix: append([]byte(nil), b[13:13+kl]...),
		})
		b = b[13+kl:]
	}
	return out, true
}

func parseIndexFile(data []byte, file uint32) (recs []idxRecord, tornAt int64) {
	pos := int64(0)
	tornAt = -1
	for pos < int64(len(data)) {
		if int64(len(data))-pos < 4 {
			return recs, pos
		}
		sz := binary.LittleEndian.Uint32(data[pos:])
		del := sz&delBit != 0
		sz &^= delBit
		end := pos + 4 + int64(sz)
		if end > int64(len(data)) {
			if del {
				// a deleted span may legitimately run to or past EOF only if
				// the file was cut there; report as torn
				return recs, pos
			}
			return recs, pos
		}
		r := idxRecord{File: file, Pos: pos, Size: sz, Deleted: del}
		if !del {
			if sz < 4 {
				r.BadList = true
			} else {
				r.Raw = data[pos+4 : end]
				r.Bucket = binary.LittleEndian.Uint32(r.Raw)
				ents, ok := parseEntries(r.Raw[4:])
				r.Entries = ents
				r.BadList = !ok
			}
		}
		recs = append(recs, r)
		pos = end
	}
	return recs, -1
}

func digestOfKey(cfg Config, key []byte) ([]byte, int, error) {
	// returns digest and the number of bytes the key occupies
	if cfg.Primary == "cid" {
		n, c, err := cid.CidFromBytes(key)
		if err != nil {
			return nil, 0, err
		}
		dec, err := multihash.Decode(c.Hash())
		if err != nil {
			return nil, 0, err
		}
		return dec.Digest, n, nil
	}
	n, mh, err := multihash.MHFromBytes(key)
	if err != nil {
		return nil, 0, err
	}
	dec, err := multihash.Decode(mh)
	if err != nil {
		return nil, 0, err
	}
	return dec.Digest, n, nil
}

func parsePrimaryFile(cfg Config, data []byte, file uint32) (recs []priRecord, tornAt int64) {
	pos := int64(0)
	for pos < int64(len(data)) {
		if int64(len(data))-pos < 4 {
			return recs, pos
		}
		sz := binary.LittleEndian.Uint32(data[pos:])
		del := sz&delBit != 0
		sz &^= delBit
		end := pos + 4 + int64(sz)
		if end > int64(len(data)) {
			return recs, pos
		}
		r := priRecord{File: file, Pos: pos, Size: sz, Deleted: del}
		if !del {
			body := data[pos+4 : end]
			dg, n, err := digestOfKey(cfg, body)
			if err != nil {
				r.Bad = err.Error()
			} else {
				r.Key = body[:n]
				r.Digest = dg
				r.Value = body[n:]
			}
		}
		recs = append(recs, r)
		pos = end
	}
	return recs, -1
}

func parseFreeList(data []byte) ([]idxEntry, bool) {
	var out []idxEntry
	for len(data) >= 12 {
		out = append(out, idxEntry{Off: binary.LittleEndian.Uint64(data), Size: binary.LittleEndian.Uint32(data[8:])})
		data = data[12:]
	}
	return out, len(data) == 0
}

func loadFsck(fs *vos.MemFS, cfg Config) *fsckView {
	v := &fsckView{fs: fs, cfg: cfg, idxRecs: map[uint32][]idxRecord{}, idxSize: map[uint32]int64{}, priRecs: map[uint32][]priRecord{}, priSize: map[uint32]int64{},
		idxTorn: map[uint32]int64{}, priTorn: map[uint32]int64{}}
	if data, ok := fs.ReadFileRaw(idxPath + ".info"); ok {
		if err := json.Unmarshal(data, &v.ih); err != nil {
			v.bad("HDR", "index header does not parse: %v (%q)", err, data)
		} else {
			v.hasIH = true
		}
	}
	if cfg.Primary != "cid" {
		if data, ok := fs.ReadFileRaw(dataPath + ".info"); ok {
			if err := json.Unmarshal(data, &v.ph); err != nil {
				v.bad("HDR", "primary header does not parse: %v (%q)", err, data)
			} else {
				v.hasPH = true
			}
		}
	}
	if v.hasIH {
		for n := v.ih.FirstFile; ; n++ {
			data, ok := fs.ReadFileRaw(fmt.Sprintf("%s.%d", idxPath, n))
			if !ok {
				break
			}
			recs, torn := parseIndexFile(data, n)
			v.idxRecs[n] = recs
			v.idxSize[n] = int64(len(data))
			v.idxTorn[n] = torn
		}
	}
	if cfg.Primary == "cid" {
		if data, ok := fs.ReadFileRaw(dataPath); ok {
			recs, torn := parsePrimaryFile(cfg, data, 0)
			v.priRecs[0] = recs
			v.priSize[0] = int64(len(data))
			v.priTorn[0] = torn
		}
	} else if v.hasPH {
		for n := v.ph.FirstFile; ; n++ {
			data, ok := fs.ReadFileRaw(fmt.Sprintf("%s.%d", dataPath, n))
			if !ok {
				break
			}
			recs, torn := parsePrimaryFile(cfg, data, n)
			v.priRecs[n] = recs
			v.priSize[n] = int64(len(data))
			v.priTorn[n] = torn
		}
	}
	if data, ok := fs.ReadFileRaw(idxPath + ".free"); ok {
		v.free, _ = parseFreeList(data)
	}
	if data, ok := fs.ReadFileRaw(idxPath + ".free.gc"); ok {
		v.freeGC, _ = parseFreeList(data)
	}
	return v
}

// rescanTable rebuilds the bucket table the way a log rescan must: the last
// non-deleted record of each bucket wins.
func (v *fsckView) rescanTable() []uint64 {
	tbl := make([]uint64, 1<<v.ih.BucketsBits)
	files := make([]uint32, 0, len(v.idxRecs))
	for n := range v.idxRecs {
		files = append(files, n)
	}
	sort.Slice(files, func(i, j int) bool { return files[i] < files[j] })
	for _, n := range files {
		for _, r := range v.idxRecs[n] {
			if r.Deleted || r.Size < 4 {
				continue
			}
			if int(r.Bucket) < len(tbl) {
				tbl[r.Bucket] = uint64(n)*uint64(v.ih.MaxFileSize) + uint64(r.Pos+4)
			}
		}
	}
	return tbl
}

func (v *fsckView) snapshotTable() ([]uint64, bool) {
	data, ok := v.fs.ReadFileRaw(idxPath + ".buckets")
	if !ok || len(data) != 8<<v.ih.BucketsBits {
		return nil, false
	}
	tbl := make([]uint64, 1<<v.ih.BucketsBits)
	for i := range tbl {
		tbl[i] = binary.LittleEndian.Uint64(data[8*i:])
	}
	return tbl, true
}

// resolveBucket decodes a bucket position and finds the record it names.
func (v *fsckView) resolveBucket(pos uint64) (*idxRecord, string) {
	mfs := uint64(v.ih.MaxFileSize)
	if pos < 4 {
		return nil, fmt.Sprintf("position %d is inside a size word", pos)
	}
	file := uint32((pos - 4) / mfs)
	local := int64(pos - uint64(file)*mfs)
	if file < v.ih.FirstFile {
		return nil, fmt.Sprintf("file %d is below the header's first file %d", file, v.ih.FirstFile)
	}
	recs, ok := v.idxRecs[file]
	if !ok {
		return nil, fmt.Sprintf("index file %d does not exist (or is not reachable from first file %d)", file, v.ih.FirstFile)
	}
	for i := range recs {
		if recs[i].Pos+4 == local {
			return &recs[i], ""
		}
	}
	return nil, fmt.Sprintf("no complete record starts at offset %d of index file %d (size %d)", local-4, file, v.idxSize[file])
}

func (v *fsckView) findPrimary(off uint64) (*priRecord, string) {
	if v.cfg.Primary == "cid" {
		for i := range v.priRecs[0] {
			if uint64(v.priRecs[0][i].Pos) == off {
				return &v.priRecs[0][i], ""
			}
		}
		return nil, fmt.Sprintf("no complete record at offset %d of the primary (size %d)", off, v.priSize[0])
	}
	mfs := uint64(v.ph.MaxFileSize)
	file := uint32(off / mfs)
	local := int64(off - uint64(file)*mfs)
	if file < v.ph.FirstFile {
		return nil, fmt.Sprintf("primary file %d is below the header's first file %d", file, v.ph.FirstFile)
	}
	recs, ok := v.priRecs[file]
	if !ok {
		return nil, fmt.Sprintf("primary file %d does not exist", file)
	}
	for i := range recs {
		if recs[i].Pos == local {
			return &recs[i], ""
		}
	}
	return nil, fmt.Sprintf("no complete record at offset %d of primary file %d (size %d)", local, file, v.priSize[file])
}

// checkTable verifies invariant groups F1..F4 for one bucket table.
func (v *fsckView) checkTable(tbl []uint64, what string) {
	if !v.hasIH {
		return
	}
	bits := uint(v.ih.BucketsBits)
	strip := int(bits / 8)
	freeSet := map[uint64]string{}
	for _, e := range v.free {
		freeSet[e.Off] = "freelist file"
	}
	for _, e := range v.freeGC {
		freeSet[e.Off] = "freelist .gc file"
	}
	seenLoc := map[uint64]uint32{}
	for b, pos := range tbl {
		if pos == 0 {
			continue
		}
		rec, why := v.resolveBucket(pos)
		if rec == nil {
			v.bad("F1", "%s bucket %#x -> %d: %s", what, b, pos, why)
			continue
		}
		if rec.Deleted {
			v.bad("F1", "%s bucket %#x points at a record marked deleted (file %d off %d)", what, b, rec.File, rec.Pos)
			continue
		}
		if rec.Bucket != uint32(b) {
			v.bad("F1", "%s bucket %#x points at a record tagged %#x (file %d off %d)", what, b, rec.Bucket, rec.File, rec.Pos)
			continue
		}
		if rec.BadList {
			v.bad("F3", "%s bucket %#x: record list does not parse", what, b)
			continue
		}
		for i, e := range rec.Entries {
			if i > 0 {
				p := rec.Entries[i-1].Prefix
				if bytes.Compare(p, e.Prefix) >= 0 {
					v.bad("F3", "%s bucket %#x: entries not strictly sorted (%x then %x)", what, b, p, e.Prefix)
				}
				if bytes.HasPrefix(e.Prefix, p) || bytes.HasPrefix(p, e.Prefix) {
					v.bad("F3", "%s bucket %#x: stored prefixes %x and %x are not prefix-free", what, b, p, e.Prefix)
				}
			}
			if ob, dup := seenLoc[e.Off]; dup {
				v.bad("F3", "%s location %d named by two live entries (buckets %#x and %#x)", what, e.Off, ob, b)
			}
			seenLoc[e.Off] = uint32(b)
			pr, why := v.findPrimary(e.Off)
			if pr == nil {
				v.bad("F2", "%s bucket %#x entry %x -> %d: %s", what, b, e.Prefix, e.Off, why)
				continue
			}
			if pr.Deleted {
				v.bad("F4", "%s bucket %#x entry %x -> %d: primary record is marked deleted", what, b, e.Prefix, e.Off)
				continue
			}
			if pr.Bad != "" {
				v.bad("F2", "%s bucket %#x entry %x -> %d: primary key does not parse: %s", what, b, e.Prefix, e.Off, pr.Bad)
				continue
			}
			if pr.Size != e.Size {
				v.bad("F2", "%s bucket %#x entry %x -> %d: entry size %d, primary record size %d", what, b, e.Prefix, e.Off, e.Size, pr.Size)
			}
			dg := pr.Digest
			if len(dg) < 4 {
				v.bad("F2", "%s bucket %#x entry -> %d: digest shorter than 4 bytes", what, b, e.Off)
				continue
			}
			kb := binary.LittleEndian.Uint32(dg) & (uint32(1)<<bits - 1)
			if kb != uint32(b) {
				v.bad("F2", "%s bucket %#x entry %x -> %d: primary key %x belongs to bucket %#x", what, b, e.Prefix, e.Off, dg, kb)
			}
			if !bytes.HasPrefix(dg[strip:], e.Prefix) {
				v.bad("F2", "%s bucket %#x entry %x -> %d: stored prefix is not a prefix of the primary key %x", what, b, e.Prefix, e.Off, dg[strip:])
			}
			if where, onFree := freeSet[e.Off]; onFree {
				v.bad("F4", "%s bucket %#x entry %x -> %d: live location is on the %s", what, b, e.Prefix, e.Off, where)
			}
		}
	}
}

func sameListContent(v *fsckView, a, b uint64) bool {
	if a == b {
		return true
	}
	if a == 0 || b == 0 {
		// an empty bucket and a bucket whose list is empty denote the same content
		x := a
		if x == 0 {
			x = b
		}
		r, _ := v.resolveBucket(x)
		return r != nil && !r.Deleted && len(r.Raw) == 4
	}
	ra, _ := v.resolveBucket(a)
	rb, _ := v.resolveBucket(b)
	if ra == nil || rb == nil || ra.Deleted || rb.Deleted {
		return false
	}
	return bytes.Equal(ra.Raw, rb.Raw)
}

// checkWalkable (group F0): in a state that no crash produced, every index
// and primary file must be a sequence of complete records from its first to
// its last byte — the rescan, both collectors and the upgrade walk the files
// sequentially and silently stop at, or run through, anything else.
func (v *fsckView) checkWalkable() {
	for n, at := range v.idxTorn {
		if at >= 0 {
			v.bad("F0", "index file %d (size %d) is not a sequence of complete records: parsing stops at offset %d", n, v.idxSize[n], at)
		}
	}
	for n, at := range v.priTorn {
		if at >= 0 {
			v.bad("F0", "primary file %d (size %d) is not a sequence of complete records: parsing stops at offset %d", n, v.priSize[n], at)
		}
	}
}

// Fsck checks the files of fs against each other. live is the in-memory
// bucket table of the open store (nil when the store is closed: the snapshot
// and/or a rescan are used instead, and compared with each other). walk
// enables group F0 (not applicable to crash images, whose tails may be torn).
func Fsck(fs *vos.MemFS, cfg Config, live []uint64, walk bool) []FsckDefect {
	v := loadFsck(fs, cfg)
	if !v.hasIH {
		return v.defects
	}
	if walk {
		v.checkWalkable()
	}
	if live != nil {
		v.checkTable(live, "live")
		return v.defects
	}
	rescan := v.rescanTable()
	snap, ok := v.snapshotTable()
	if ok {
		v.checkTable(snap, "snapshot")
		for b := range snap {
			if !sameListContent(v, snap[b], rescan[b]) {
				v.bad("F5", "bucket %#x: snapshot position %d and rescan position %d denote different record lists", b, snap[b], rescan[b])
			}
		}
	} else {
		v.checkTable(rescan, "rescan")
	}
	return v.defects
}

// liveTable fetches the open store's bucket table through the accessor.
func (w *World) liveTable() []uint64 {
	tbl := w.idx().VerifBuckets()
	out := make([]uint64, len(tbl))
	for i, p := range tbl {
		out[i] = uint64(p)
	}
	return out
}

// FsckOpen runs fsck on the open, flushed store.
func (w *World) FsckOpen() *Violation {
	defs := Fsck(w.FS, w.Cfg, w.liveTable(), !w.crashed)
	if len(defs) == 0 {
		return nil
	}
	return violO("fsck", "fsck:"+defs[0].Class, "%d defect(s); first: %s", len(defs), defs[0].Detail)
}

// FsckClosed runs fsck on the closed store's files.
func (w *World) FsckClosed() *Violation {
	defs := Fsck(w.FS, w.Cfg, nil, !w.crashed)
	if len(defs) == 0 {
		return nil
	}
	return violO("fsck", "fsck:"+defs[0].Class, "%d defect(s); first: %s", len(defs), defs[0].Detail)
}
