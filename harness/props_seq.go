package harness

// Scenario definitions for the properties decided by engine S.

func cfg(primary string, imm bool, bits uint8, ifs, pfs uint32) Config {
	return Config{Primary: primary, Immutable: imm, Bits: bits, IdxFS: ifs, PriFS: pfs}
}

// quickConfigs is a 12-element covering subset of the configuration product;
// thoroughConfigs is the full product (DESIGN section 4, "Configurations").
func quickConfigs() []Config {
	cs := []Config{
		cfg("mh", false, 8, 1, 1),
		cfg("mh", false, 8, 48, 48),
		cfg("mh", false, 8, bigFile, bigFile),
		cfg("mh", false, 12, 48, 48),
		cfg("mh", false, 16, 1, 1),
		cfg("mh", false, 9, bigFile, bigFile),
		cfg("mh", true, 8, 48, 48),
		cfg("mh", true, 16, bigFile, bigFile),
		cfg("cid", false, 8, 1, bigFile),
		cfg("cid", false, 12, bigFile, bigFile),
		cfg("cid", true, 8, 48, bigFile),
	}
	d := cfg("mh", false, 8, 48, 48)
	d.MapDesc = true
	return append(cs, d)
}

func thoroughConfigs() []Config {
	var cs []Config
	for _, p := range []string{"mh", "cid"} {
		for _, imm := range []bool{false, true} {
			for _, bits := range []uint8{8, 9, 12, 16} {
				for _, fs := range []uint32{1, 48, bigFile} {
					pfs := fs
					if p == "cid" {
						pfs = bigFile
					}
					cs = append(cs, cfg(p, imm, bits, fs, pfs))
					if fs == 48 && bits == 8 {
						d := cfg(p, imm, bits, fs, pfs)
						d.MapDesc = true
						cs = append(cs, d)
					}
				}
			}
		}
	}
	// Short digests: with 24 bucket bits the stored index key is one byte.
	short := cfg("mh", false, 24, 48, 48)
	short.DigestLen = 4
	cs = append(cs, short)
	d5 := cfg("mh", false, 16, 48, 48)
	d5.DigestLen = 5
	cs = append(cs, d5)
	d32 := cfg("mh", false, 8, 48, 48)
	d32.DigestLen = 32
	cs = append(cs, d32)
	return cs
}

func putOps(keys []int, vals []int) []Op {
	var ops []Op
	for _, k := range keys {
		for _, v := range vals {
			ops = append(ops, Op{Kind: OpPut, K: k, V: v})
		}
	}
	return ops
}

func removeOps(keys []int) []Op {
	var ops []Op
	for _, k := range keys {
		ops = append(ops, Op{Kind: OpRemove, K: k})
	}
	return ops
}

// sharedBucketNontrivial: at least two present keys shared a bucket (K0..K3
// share one) at the end of the history.
func sharedBucketNontrivial(w *World, hist []Op) bool {
	n := 0
	for i := 0; i < 4 && i < len(w.Keys); i++ {
		if _, ok := w.Model[string(w.Keys[i].Digest)]; ok {
			n++
		}
	}
	return n >= 2
}

func c01Scenarios(tier string) []*SeqScenario {
	var scs []*SeqScenario
	if tier == "quick" {
		alpha := append(putOps([]int{0, 1, 3, 4}, []int{0, 1, 2}), removeOps([]int{0, 1, 3, 4})...)
		alpha = append(alpha, Op{Kind: OpFlush}, Op{Kind: OpReads})
		for _, c := range quickConfigs() {
			scs = append(scs, &SeqScenario{Prop: "C01", Name: "c01-quick", Cfg: c, Alphabet: alpha, Depth: 4, Nontrivial: sharedBucketNontrivial})
		}
		return scs
	}
	// thorough: depth 5 on the 4-key alphabet over the full configuration
	// product, plus depth 4 on the full universe with single reads and
	// iteration as alphabet members and the extra values.
	alpha := append(putOps([]int{0, 1, 3, 4}, []int{0, 1, 2}), removeOps([]int{0, 1, 3, 4})...)
	alpha = append(alpha, Op{Kind: OpFlush}, Op{Kind: OpReads})
	for _, c := range thoroughConfigs() {
		scs = append(scs, &SeqScenario{Prop: "C01", Name: "c01-deep", Cfg: c, Alphabet: alpha, Depth: 5, Nontrivial: sharedBucketNontrivial})
	}
	wide := append(putOps([]int{0, 1, 2, 3, 4}, []int{0, 1, 2, 3, 4, 5}), removeOps([]int{0, 1, 2, 3, 4})...)
	wide = append(wide, Op{Kind: OpFlush}, Op{Kind: OpReads}, Op{Kind: OpIterate},
		Op{Kind: OpGet, K: 0}, Op{Kind: OpGet, K: 1}, Op{Kind: OpHas, K: 2}, Op{Kind: OpGetSize, K: 3})
	for _, c := range quickConfigs() {
		scs = append(scs, &SeqScenario{Prop: "C01", Name: "c01-wide", Cfg: c, Alphabet: wide, Depth: 4, Nontrivial: sharedBucketNontrivial})
	}
	return scs
}
