package harness

import (
	"bytes"
	"errors"
	"fmt"
	"strings"

	"github.com/ipld/go-storethehash/store/types"

	"github.com/ipld/go-storethehash/verifshim/vos"
)

func stringsContains(s, sub string) bool { return strings.Contains(s, sub) }

// Scenario definitions for the properties decided by engine S.

func cfg(primary string, imm bool, bits uint8, ifs, pfs uint32) Config {
	return Config{Primary: primary, Immutable: imm, Bits: bits, IdxFS: ifs, PriFS: pfs}
}

// quickConfigs is a 12-element covering subset of the configuration product;
// thoroughConfigs is the full product (DESIGN section 4, "Configurations").
func quickConfigs() []Config {
	cs := []Config{
		cfg("mh", false, 8, 1, 1),
		cfg("mh", false, 8, 48, 48),
		cfg("mh", false, 8, bigFile, bigFile),
		cfg("mh", false, 12, 48, 48),
		cfg("mh", false, 16, 1, 1),
		cfg("mh", false, 9, bigFile, bigFile),
		cfg("mh", true, 8, 48, 48),
		cfg("mh", true, 16, bigFile, bigFile),
		cfg("cid", false, 8, 1, bigFile),
		cfg("cid", false, 12, bigFile, bigFile),
		cfg("cid", true, 8, 48, bigFile),
	}
	d := cfg("mh", false, 8, 48, 48)
	d.MapDesc = true
	cs = append(cs, d)
	// exact fit: a one-entry record list is 22 bytes, a record with a 1-byte
	// value 12 bytes, so records end exactly on the file-size limits
	return append(cs, cfg("mh", false, 8, 22, 12))
}

func thoroughConfigs() []Config {
	var cs []Config
	for _, p := range []string{"mh", "cid"} {
		for _, imm := range []bool{false, true} {
			for _, bits := range []uint8{8, 9, 12, 16} {
				for _, fs := range []uint32{1, 48, bigFile} {
					pfs := fs
					if p == "cid" {
						pfs = bigFile
					}
					cs = append(cs, cfg(p, imm, bits, fs, pfs))
					if fs == 48 && bits == 8 {
						d := cfg(p, imm, bits, fs, pfs)
						d.MapDesc = true
						cs = append(cs, d)
					}
				}
			}
		}
	}
	// Short digests: with 24 bucket bits the stored index key is one byte.
	// (a 24-bit table is 128 MiB per open and per snapshot: 20 bits give the
	// same single-byte stored keys with 4-byte digests at 8 MiB)
	short := cfg("mh", false, 20, 48, 48)
	short.DigestLen = 4
	cs = append(cs, short)
	d5 := cfg("mh", false, 16, 48, 48)
	d5.DigestLen = 5
	cs = append(cs, d5)
	d32 := cfg("mh", false, 8, 48, 48)
	d32.DigestLen = 32
	cs = append(cs, d32)
	cs = append(cs, cfg("mh", false, 8, 22, 12), cfg("mh", false, 12, 22, 12), cfg("mh", false, 8, 44, 24), cfg("cid", false, 8, 22, bigFile))
	return cs
}

func putOps(keys []int, vals []int) []Op {
	var ops []Op
	for _, k := range keys {
		for _, v := range vals {
			ops = append(ops, Op{Kind: OpPut, K: k, V: v})
		}
	}
	return ops
}

func removeOps(keys []int) []Op {
	var ops []Op
	for _, k := range keys {
		ops = append(ops, Op{Kind: OpRemove, K: k})
	}
	return ops
}

// sharedBucketNontrivial: at least two present keys shared a bucket (K0..K3
// share one) at the end of the history.
func sharedBucketNontrivial(w *World, hist []Op) bool {
	n := 0
	for i := 0; i < 4 && i < len(w.Keys); i++ {
		if _, ok := w.Model[string(w.Keys[i].Digest)]; ok {
			n++
		}
	}
	return n >= 2
}

func c01Preambles() [][]Op {
	return [][]Op{
		{P(4, 1), opF, R(4), opF},
		{P(0, 1), P(1, 1), opF, R(0), opF},
		{P(0, 1), P(1, 2), P(3, 1), opF, R(1), P(1, 1)},
	}
}

func c01Scenarios(tier string) []*SeqScenario {
	var scs []*SeqScenario
	if tier == "quick" {
		alpha := append(putOps([]int{0, 1, 3, 4}, []int{0, 1, 2}), removeOps([]int{0, 1, 3, 4})...)
		alpha = append(alpha, Op{Kind: OpPut, K: 0, V: 4}, Op{Kind: OpPut, K: 1, V: 4}, Op{Kind: OpPut, K: 5, V: 1}, Op{Kind: OpFlush}, Op{Kind: OpReads})
		for _, c := range quickConfigs() {
			scs = append(scs, &SeqScenario{Prop: "C01", Name: "c01-quick", Cfg: c, Alphabet: alpha, Depth: 4, Nontrivial: sharedBucketNontrivial})
		}
		// non-initial start states: a bucket whose only key was removed and
		// flushed, a bucket that lost one of two keys, overwritten keys
		for _, c := range []Config{cfg("mh", false, 8, 48, 48), cfg("cid", false, 8, 1, bigFile), cfg("mh", true, 12, bigFile, bigFile)} {
			for _, pre := range c01Preambles() {
				scs = append(scs, &SeqScenario{Prop: "C01", Name: "c01-pre", Cfg: c, Preamble: pre, Alphabet: alpha, Depth: 3, Nontrivial: sharedBucketNontrivial})
			}
		}
		return scs
	}
	// thorough: depth 5 on the 4-key alphabet over the full configuration
	// product, plus depth 4 on the full universe with single reads and
	// iteration as alphabet members and the extra values.
	alpha := append(putOps([]int{0, 1, 3, 4}, []int{0, 1, 2}), removeOps([]int{0, 1, 3, 4})...)
	alpha = append(alpha, Op{Kind: OpPut, K: 5, V: 1}, Op{Kind: OpFlush}, Op{Kind: OpReads})
	for _, c := range thoroughConfigs() {
		scs = append(scs, &SeqScenario{Prop: "C01", Name: "c01-deep", Cfg: c, Alphabet: alpha, Depth: 5, Nontrivial: sharedBucketNontrivial})
	}
	wide := append(putOps([]int{0, 1, 2, 3, 4, 5}, []int{0, 1, 2, 3, 4, 5}), removeOps([]int{0, 1, 2, 3, 4, 5})...)
	wide = append(wide, Op{Kind: OpFlush}, Op{Kind: OpReads}, Op{Kind: OpIterate},
		Op{Kind: OpGet, K: 0}, Op{Kind: OpGet, K: 1}, Op{Kind: OpHas, K: 2}, Op{Kind: OpGetSize, K: 3})
	for _, c := range quickConfigs() {
		scs = append(scs, &SeqScenario{Prop: "C01", Name: "c01-wide", Cfg: c, Alphabet: wide, Depth: 4, Nontrivial: sharedBucketNontrivial})
		for _, pre := range c01Preambles() {
			scs = append(scs, &SeqScenario{Prop: "C01", Name: "c01-pre", Cfg: c, Preamble: pre, Alphabet: alpha, Depth: 4, Nontrivial: sharedBucketNontrivial})
		}
	}
	return scs
}

// ---- GC scenarios (C04, C07, C11, C13) ----

func withLedger(w *World) {
	w.ledger = &Ledger{}
	w.FS.StartLog(true)
}

// gcActionCounters classifies the logged mutations of GC code by action so
// that evidence shows which GC mechanisms the enumeration really exercised.
func gcActionCounters(w *World, c *Collector) {
	for _, m := range w.FS.Log() {
		inner, outer, _ := strings.Cut(m.Site, "<")
		in := func(sub string) bool { return strings.Contains(inner, sub) }
		out := func(sub string) bool { return strings.Contains(outer, sub) }
		switch {
		case in("reapIndexRecords") && m.Kind == vos.MWrite:
			c.count("gc.index.mark_or_merge", 1)
		case in("reapIndexRecords") && m.Kind == vos.MTrunc:
			c.count("gc.index.truncate_tail", 1)
		case in("truncateFreeFiles") && m.Kind == vos.MTrunc:
			c.count("gc.index.empty_file", 1)
		case in("truncateFreeFiles") && m.Kind == vos.MRemove:
			c.count("gc.index.unlink_free_file", 1)
		case in("index.writeHeader") && (out("truncateFreeFiles") || out("index.(*Index).gc")) && m.Kind == vos.MWrite:
			c.count("gc.index.header_advance", 1)
		case in("index.(*Index).gc") && m.Kind == vos.MRemove:
			c.count("gc.index.unlink", 1)
		case in("deleteRecords") && m.Kind == vos.MWrite:
			c.count("gc.primary.freelist_apply", 1)
		case in("reapRecords") && m.Kind == vos.MWrite:
			c.count("gc.primary.merge", 1)
		case in("reapRecords") && m.Kind == vos.MTrunc:
			c.count("gc.primary.truncate_tail", 1)
		case in("multihash.writeHeader") && out("(*primaryGC).gc") && m.Kind == vos.MWrite:
			c.count("gc.primary.header_advance", 1)
		case in("multihash.(*primaryGC).gc") && m.Kind == vos.MRemove:
			c.count("gc.primary.unlink", 1)
		case in("processFreeList") && m.Kind == vos.MRemove:
			c.count("gc.primary.freelist_batch_done", 1)
		case in("ToGC") && m.Kind == vos.MRename:
			c.count("gc.freelist.handover", 1)
		}
	}
	c.count("gc.primary.relocated_records", int64(w.relocs))
}

// gcFinal is the end-of-history battery of the map oracle for GC histories
// (C04): nothing a GC cycle did may change what a later read or reopen sees.
func gcFinal(w *World, c *Collector) *Violation {
	if v := w.Step(Op{Kind: OpFlush}); v != nil {
		return v
	}
	if v := w.Reads(); v != nil {
		return v
	}
	if v := w.Iterate(); v != nil {
		return v
	}
	gcActionCounters(w, c)
	if v := w.Step(Op{Kind: OpReopen, A: 1}); v != nil {
		return v
	}
	if v := w.Reads(); v != nil {
		return v
	}
	return nil
}

// fsckFinal is the battery of C07: flush, check the files against the live
// table; close, check the files against snapshot and rescan.
func fsckFinal(w *World, c *Collector) *Violation {
	if v := w.Step(Op{Kind: OpFlush}); v != nil {
		return v
	}
	if v := w.FsckOpen(); v != nil {
		return v
	}
	gcActionCounters(w, c)
	if err := w.Close(); err != nil {
		return viol("call-error", "Close: %v", err)
	}
	if v := w.FsckClosed(); v != nil {
		return v
	}
	c.count("fsck.states_checked", 2)
	return nil
}

// ledgerFinal is the battery of C13.
func ledgerFinal(w *World, c *Collector) *Violation {
	if v := w.Step(Op{Kind: OpFlush}); v != nil {
		return v
	}
	if v := w.ledger.Check(w, false); v != nil {
		return v
	}
	gcActionCounters(w, c)
	if w.mh() != nil {
		// A cycle that finds a hand-over file left by an interrupted cycle
		// processes that one first; the entries flushed since are handed over
		// by the next cycle. Two complete cycles present everything.
		for i := 0; i < 2; i++ {
			if v := w.Step(Op{Kind: OpPriGC, A: 101}); v != nil {
				return v
			}
		}
		if v := w.ledger.Check(w, true); v != nil {
			return v
		}
	}
	c.count("ledger.expected_frees", int64(len(w.ledger.expected)))
	return nil
}

func gcConfigs(tier string) []Config {
	cs := []Config{
		cfg("mh", false, 8, 1, 1),
		cfg("mh", false, 8, 48, 48),
		cfg("mh", false, 8, 48, 1),
		cfg("cid", false, 8, 1, bigFile),
		cfg("mh", false, 8, 48, 100),
	}
	if tier != "quick" {
		cs = append(cs,
			cfg("mh", false, 8, 1, 48),
			cfg("mh", false, 12, 48, 48),
			cfg("mh", true, 8, 48, 48),
			cfg("cid", false, 8, 48, bigFile),
			// more buckets than the 4096-entry chunk in which the free-file
			// scan copies the bucket table
			cfg("mh", false, 16, 48, 48),
		)
		d := cfg("mh", false, 8, 48, 48)
		d.MapDesc = true
		cs = append(cs, d)
	}
	return cs
}

// gcPreambles are start states that contain superseded record lists, freed
// primary records and a low-use primary file, so that depth-bounded
// enumeration starts where the collectors have work.
// indices of preambles that scenarios pick by name (appending to the list
// must not silently change what a scenario runs)
const (
	preMergeDeleted = 7 // middle record of index file 0 already marked deleted
	preMiddleDead   = 8 // middle index file fully superseded
)

func gcPreambles() [][]Op {
	P := func(k, v int) Op { return Op{Kind: OpPut, K: k, V: v} }
	F := Op{Kind: OpFlush}
	return [][]Op{
		nil,
		{P(0, 1), P(1, 1), P(3, 1), P(4, 1), F, P(0, 2), P(1, 2), P(3, 2), F},
		{P(0, 1), F, P(1, 1), F, P(4, 1), F, {Kind: OpRemove, K: 0}, F, P(0, 2), F},
		{P(0, 1), P(0, 2)},
		{P(0, 1), P(1, 1), F, P(0, 2), {Kind: OpRemove, K: 1}},
		// three single-entry record lists of one bucket: with a 48-byte
		// index file limit the third starts in the last 4 bytes before it
		{P(4, 1), F, P(4, 2), F, P(4, 1), F},
		// three live records in three files (1-byte limits): a middle file
		// can die while the first stays live
		{P(0, 1), P(1, 1), P(4, 1), F},
		// index file 0 = [R1 bucket of K0][R2 bucket of K4][R3 bucket of K5];
		// R2 superseded and already marked deleted by one GC cycle
		{P(0, 1), F, P(4, 1), F, P(5, 1), F, P(4, 2), F, {Kind: OpIdxGC, B: true}},
		// a middle index file (1-byte limits) that is fully superseded while
		// the first file stays referenced
		{P(0, 1), F, P(4, 1), F, P(4, 2), F},
		// primary file 0 (100-byte limit) = [K0=L70, K3=bb, K1=a]: low-use once
		// K0 is superseded, its last two records have different sizes
		{P(0, 5), P(3, 2), P(1, 1), F, P(4, 1), F, P(0, 1), F},
	}
}

func gcAlphabet(tier string) []Op {
	alpha := putOps([]int{0, 1, 4}, []int{1, 2})
	alpha = append(alpha, removeOps([]int{0, 1})...)
	alpha = append(alpha, Op{Kind: OpFlush},
		Op{Kind: OpIdxGC, B: true}, Op{Kind: OpIdxGC, B: false},
		Op{Kind: OpPriGC, A: 0}, Op{Kind: OpPriGC, A: 50}, Op{Kind: OpPriGC, A: 50, V: 1},
		// an index-GC cycle stopped by its time limit in its second file
		// (the next cycle resumes there)
		Op{Kind: OpIdxGC, B: false, A: 3})
	if tier != "quick" {
		alpha = append(alpha, Op{Kind: OpPriGC, A: 85}, Op{Kind: OpPriGC, A: 101},
			Op{Kind: OpIdxGC, B: true, A: 2}, Op{Kind: OpIdxGC, B: false, A: 4},
			Op{Kind: OpPriGC, A: 0, V: 1}, Op{Kind: OpPriGC, A: 50, V: 2},
			Op{Kind: OpReopen, A: 0}, Op{Kind: OpReopen, A: 1})
	}
	return alpha
}

func gcNontrivial(w *World, hist []Op) bool {
	// a GC op actually mutated the file system
	for _, m := range w.FS.Log() {
		if stringsContains(m.Site, "gc") || stringsContains(m.Site, "reap") || stringsContains(m.Site, "deleteRecords") || stringsContains(m.Site, "truncateFreeFiles") {
			return true
		}
	}
	return false
}

func gcScenarios(prop, tier string) []*SeqScenario {
	var scs []*SeqScenario
	depth := 3
	if tier != "quick" {
		depth = 4
	}
	for _, c := range gcConfigs(tier) {
		for pi, pre := range gcPreambles() {
			d := depth
			if pi == 0 {
				d = depth + 1
			}
			sc := &SeqScenario{Prop: prop, Name: "gc", Cfg: c, Preamble: pre, Alphabet: gcAlphabet(tier), Depth: d,
				Setup: withLedger, Final: gcFinal, Nontrivial: gcNontrivial}
			switch prop {
			case "C07":
				sc.Final, sc.Oracles = fsckFinal, []string{"fsck"}
			case "C13":
				sc.Final, sc.Oracles = ledgerFinal, []string{"ledger"}
				sc.Nontrivial = func(w *World, hist []Op) bool { return len(w.ledger.expected) > 0 }
			}
			scs = append(scs, sc)
		}
		// States that the short preambles cannot reach (C04 / C13 only, the
		// bounded-progress oracle of C11 would need hundreds of cycles):
		// a freelist larger than one 4 KiB read buffer, and a restart with
		// flushed freelist entries that no GC cycle has consumed yet.
		if prop == "C04" || prop == "C13" {
			for _, lp := range largeStatePreambles() {
				if lp.bulk && (c.PriFS == 1 || c.Primary == "cid") {
					continue // hundreds of one-record files add nothing here
				}
				sc := &SeqScenario{Prop: prop, Name: "gc-" + lp.name, Cfg: c, Preamble: lp.ops, Alphabet: gcAlphabet(tier), Depth: lp.depth,
					Setup: withLedger, Final: gcFinal, Nontrivial: gcNontrivial}
				if prop == "C13" {
					sc.Final, sc.Oracles = ledgerFinal, []string{"ledger"}
					sc.Nontrivial = func(w *World, hist []Op) bool { return len(w.ledger.expected) > 0 }
				}
				scs = append(scs, sc)
			}
		}
	}
	return scs
}

// ---- C02: clean Close / reopen ----

type obsVec []string

// observe returns Get results for every key and probe of the world on the
// given store (not compared with the model).
func observeStore(w *World) obsVec {
	var out obsVec
	for _, ks := range [][]Key{w.Keys, w.Probes} {
		for _, k := range ks {
			v, found, err := w.S.Get(k.Raw)
			out = append(out, fmt.Sprintf("%s:%v:%q:%v", k.Name, found, v, err))
		}
	}
	return out
}

// forkOpen opens a copy of img (optionally without the bucket snapshot) and
// returns the live bucket table resolved to record-list bytes, and the
// observation vector.
func forkOpen(parent *World, img vos.Image, dropSnapshot bool) (lists map[int]string, obs obsVec, err error) {
	fw := &World{Cfg: parent.Cfg, FS: vos.FromImage(img), Model: parent.Model, GCInt: parent.GCInt, Sync: parent.Sync, Keys: parent.Keys, Probes: parent.Probes}
	if dropSnapshot {
		fw.FS.RemoveRaw(idxPath + ".buckets")
	}
	if err := fw.Open(); err != nil {
		return nil, nil, err
	}
	tbl := fw.liveTable()
	view := loadFsck(fw.FS, fw.Cfg)
	lists = make(map[int]string)
	for b, pos := range tbl {
		if pos == 0 {
			continue
		}
		r, why := view.resolveBucket(pos)
		if r == nil {
			lists[b] = "UNRESOLVED: " + why
			continue
		}
		if len(r.Raw) > 4 {
			lists[b] = string(r.Raw)
		}
	}
	obs = observeStore(fw)
	fw.Close()
	return lists, obs, nil
}

// reopenDifferential closes the store, forks the directory image and reopens
// it once through the snapshot and once through a rescan; both must denote the
// same record list for every bucket and answer every read identically.
func (w *World) reopenDifferential() *Violation {
	if err := w.Close(); err != nil {
		return viol("call-error", "Close: %v", err)
	}
	if err := w.S.Close(); err != nil {
		return viol("call-error", "second Close: %v", err)
	}
	img := w.FS.Image()
	defer vos.SetBackend(w.FS)
	la, oa, err := forkOpen(w, img, false)
	if err != nil {
		return violO("diff", "open-error", "reopen through snapshot: %v", err)
	}
	lb, ob, err := forkOpen(w, img, true)
	if err != nil {
		return violO("diff", "open-error", "reopen through rescan: %v", err)
	}
	for b, l := range la {
		if lb[b] != l {
			return violO("diff", "recovery-paths-differ", "bucket %#x: snapshot path resolves to %x, rescan path to %x", b, l, lb[b])
		}
	}
	for b, l := range lb {
		if la[b] != l {
			return violO("diff", "recovery-paths-differ", "bucket %#x: snapshot path resolves to %x, rescan path to %x", b, la[b], l)
		}
	}
	for i := range oa {
		if oa[i] != ob[i] {
			return violO("diff", "recovery-paths-differ", "read differs: snapshot path %s, rescan path %s", oa[i], ob[i])
		}
	}
	vos.SetBackend(w.FS)
	return nil
}

func c02Final(w *World, c *Collector) *Violation {
	if v := w.Reads(); v != nil {
		return v
	}
	if v := w.reopenDifferential(); v != nil {
		return v
	}
	// the world is closed now; reopen through the snapshot and compare with the model
	if err := w.Open(); err != nil {
		return viol("open-error", "reopen: %v", err)
	}
	if v := w.Reads(); v != nil {
		return v
	}
	if v := w.Iterate(); v != nil {
		return v
	}
	return nil
}

func reopenCount(hist []Op) int {
	n := 0
	for _, o := range hist {
		if o.Kind == OpReopen {
			n++
		}
	}
	return n
}

func c02Scenarios(tier string) []*SeqScenario {
	var scs []*SeqScenario
	alpha := append(putOps([]int{0, 1, 4}, []int{0, 1, 2}), removeOps([]int{0, 1})...)
	alpha = append(alpha, Op{Kind: OpFlush},
		Op{Kind: OpReopen, A: 0}, Op{Kind: OpReopen, A: 1}, Op{Kind: OpReopen, A: 2}, Op{Kind: OpReopen, A: 3},
		Op{Kind: OpIdxGC, B: true}, Op{Kind: OpPriGC, A: 50})
	depth := 4
	cfgs := []Config{
		cfg("mh", false, 8, 1, 1),
		cfg("mh", false, 8, 48, 48),
		cfg("mh", false, 8, bigFile, bigFile),
		cfg("mh", true, 12, 48, 48),
		cfg("cid", false, 8, 48, bigFile),
		cfg("cid", false, 9, 1, bigFile),
	}
	if tier != "quick" {
		depth = 5
		cfgs = append(cfgs, cfg("mh", false, 16, 48, 1), cfg("mh", false, 9, 1, 48), cfg("cid", true, 8, bigFile, bigFile))
		alpha = append(alpha, Op{Kind: OpIdxGC, B: false}, Op{Kind: OpPriGC, A: 0})
	}
	allow := func(hist []Op) bool { return reopenCount(hist) <= 2 }
	nontriv := func(w *World, hist []Op) bool { return reopenCount(hist) > 0 && len(w.Model) > 0 }
	for _, c := range cfgs {
		scs = append(scs, &SeqScenario{Prop: "C02", Name: "c02", Cfg: c, Alphabet: alpha, Depth: depth, Allow: allow,
			Final: c02Final, Oracles: []string{"map", "diff"}, Nontrivial: nontriv})
		c02pres := append(append([][]Op{}, gcPreambles()[1:3]...), gcPreambles()[preMiddleDead])
		for pi, pre := range c02pres {
			_ = pi
			scs = append(scs, &SeqScenario{Prop: "C02", Name: "c02-pre", Cfg: c, Preamble: pre, Alphabet: alpha, Depth: depth - 2, Allow: allow,
				Final: c02Final, Oracles: []string{"map", "diff"}, Nontrivial: nontriv})
		}
		if c.IdxFS == 48 {
			pres := gcPreambles()
			scs = append(scs, &SeqScenario{Prop: "C02", Name: "c02-merge", Cfg: c, Preamble: pres[preMergeDeleted], Alphabet: alpha, Depth: depth - 1, Allow: allow,
				Final: c02Final, Oracles: []string{"map", "diff"}, Nontrivial: nontriv})
		}
	}
	return scs
}

// ---- C03: crash scenarios ----

func c03Scenarios(prop, tier string) []*CrashScenario {
	alpha := putOps([]int{0, 1, 4}, []int{1, 2})
	alpha = append(alpha, removeOps([]int{0, 1})...)
	alpha = append(alpha, Op{Kind: OpFlush}, Op{Kind: OpIdxGC, B: true}, Op{Kind: OpIdxGC, B: false}, Op{Kind: OpPriGC, A: 0}, Op{Kind: OpPriGC, A: 50}, Op{Kind: OpReopen, A: 0})
	depth := 3
	cfgs := []Config{
		cfg("mh", false, 8, 1, 1),
		cfg("mh", false, 8, 48, 48),
		cfg("cid", false, 8, 48, bigFile),
	}
	pres := gcPreambles()[:5]
	if tier != "quick" {
		pres = gcPreambles()
		depth = 4
		cfgs = append(cfgs, cfg("mh", false, 8, bigFile, bigFile), cfg("mh", false, 12, 48, 1), cfg("mh", true, 8, 48, 48))
		alpha = append(alpha, Op{Kind: OpReopen, A: 1})
	}
	var oracles []string
	if prop == "C07" {
		oracles = []string{"fsck"}
	}
	var scs []*CrashScenario
	for _, c := range cfgs {
		for pi, pre := range pres {
			d := depth
			if pi > 0 {
				d = depth - 1
			}
			scs = append(scs, &CrashScenario{Prop: prop, Name: "c03", Cfg: c, Preamble: pre, Alphabet: alpha, Depth: d, Oracles: oracles})
		}
		if tier == "quick" && c.IdxFS == 48 {
			// second index-GC cycle over a file whose middle record the first
			// cycle already marked deleted (merge of deleted spans), then a
			// recovery by rescan: one more flushed Put makes the first record
			// stale, so that a single IndexGC op merges
			pre := append(append([]Op{}, gcPreambles()[preMergeDeleted]...), Op{Kind: OpPut, K: 1, V: 1}, Op{Kind: OpFlush})
			scs = append(scs, &CrashScenario{Prop: prop, Name: "c03-merge", Cfg: c, Preamble: pre, Alphabet: alpha, Depth: 1, Oracles: oracles})
		}
	}
	return scs
}

// ---- C11: GC reclaims space in bounded cycles ----

func fileSizeRaw(fs *vos.MemFS, name string) (int64, bool) {
	d, ok := fs.ReadFileRaw(name)
	return int64(len(d)), ok
}

// reportedStorage is the storage the store reports, minus the two header
// files (whose JSON can grow by a digit when a first-file number advances;
// the statement is about reclaiming data files).
func reportedStorage(w *World) (int64, error) {
	n, err := w.S.StorageSize()
	if err != nil {
		return 0, err
	}
	for _, h := range []string{idxPath + ".info", dataPath + ".info"} {
		if sz, ok := fileSizeRaw(w.FS, h); ok {
			n -= sz
		}
	}
	return n, nil
}

func reclaimFinal(removeAll bool, threshold int) func(w *World, c *Collector) *Violation {
	return reclaimFinalMode(removeAll, false, threshold, 0)
}

// reclaimFinalMode: with partial set, only K0 is superseded, so that
// files keep live records and the low-use clause is exercised: a non-current
// primary file whose free share is at or above the threshold must be drained
// by relocation and released like the others.
// cutFirst > 0: the first cycle after the premise is stopped by its time limit
// (context error from its cutFirst-th poll on); progress must survive it.
func reclaimFinalMode(removeAll, partial bool, threshold int, cutFirst int) func(w *World, c *Collector) *Violation {
	return func(w *World, c *Collector) *Violation {
		mp := w.mh()
		// locations freed by the premise step itself (the collector only
		// re-examines files that new freelist entries touch)
		beforePremise := w.locateAll()
		freedNow := map[uint64]bool{}
		// 1. establish the premise: supersede every live record, flush
		for ki := range w.Keys {
			val, present := w.Model[string(w.Keys[ki].Digest)]
			if !present {
				continue
			}
			if partial && ki > 0 {
				continue
			}
			var op Op
			if removeAll {
				op = Op{Kind: OpRemove, K: ki}
			} else {
				nv := 3
				if string(val) == string(values[3]) {
					nv = 2
				}
				op = Op{Kind: OpPut, K: ki, V: nv}
			}
			if v := w.Step(op); v != nil {
				return v
			}
		}
		if v := w.Step(Op{Kind: OpFlush}); v != nil {
			return v
		}
		afterPremise := w.locateAll()
		for d, b := range beforePremise {
			if a, ok := afterPremise[d]; !ok || a != b {
				freedNow[uint64(b.Offset)] = true
			}
		}
		// 2. which non-current files hold nothing live?
		view := loadFsck(w.FS, w.Cfg)
		live := map[uint64]bool{}
		for _, b := range w.locateAll() {
			live[uint64(b.Offset)] = true
		}
		type premise struct {
			path   string
			oldest bool
			recs   int
		}
		var prem []premise
		if mp != nil && view.hasPH {
			curFile, _ := mp.VerifFlushed()
			for n := view.ph.FirstFile; n != curFile; n++ {
				recs, ok := view.priRecs[n]
				if !ok {
					break
				}
				hasLive, touched := false, false
				var busy, free int64
				for _, r := range recs {
					abs := uint64(n)*uint64(view.ph.MaxFileSize) + uint64(r.Pos)
					if freedNow[abs] {
						touched = true
					}
					if live[abs] {
						hasLive = true
						busy += int64(r.Size)
					} else {
						free += int64(r.Size)
					}
				}
				if !hasLive {
					prem = append(prem, premise{fmt.Sprintf("%s.%d", dataPath, n), n == view.ph.FirstFile, len(recs)})
				} else if partial && touched && 100*free >= int64(threshold)*(free+busy) {
					// (only files the premise step itself freed a record in:
					// those are the ones the next cycle re-examines, with the
					// same accounting as here)
					// low-use: must be drained by relocation and then released
					prem = append(prem, premise{fmt.Sprintf("%s.%d", dataPath, n), false, len(recs)})
					c.count("reclaim.low_use_premise_files", 1)
				}
			}
		}
		if view.hasIH {
			curIdx := w.idx().VerifFileNum()
			referenced := map[uint32]bool{}
			for _, pos := range w.liveTable() {
				if pos != 0 {
					referenced[uint32((pos-4)/uint64(view.ih.MaxFileSize))] = true
				}
			}
			for n := view.ih.FirstFile; n != curIdx; n++ {
				recs, ok := view.idxRecs[n]
				if !ok {
					break
				}
				if !referenced[n] {
					prem = append(prem, premise{fmt.Sprintf("%s.%d", idxPath, n), n == view.ih.FirstFile, len(recs)})
				}
			}
		}
		if len(prem) == 0 {
			return nil
		}
		c.count("nontrivial", 1)
		c.count("reclaim.premise_files", int64(len(prem)))
		maxRecs := 0
		for _, p := range prem {
			if p.recs > maxRecs {
				maxRecs = p.recs
			}
		}
		K := (maxRecs+1)/2 + 3
		cycle := func() *Violation {
			before, err := reportedStorage(w)
			if err != nil {
				return violO("reclaim", "call-error", "StorageSize: %v", err)
			}
			relocs := w.relocs
			if v := w.Step(Op{Kind: OpPriGC, A: threshold}); v != nil {
				return v
			}
			if v := w.Step(Op{Kind: OpIdxGC, B: true}); v != nil {
				return v
			}
			after, err := reportedStorage(w)
			if err != nil {
				return violO("reclaim", "call-error", "StorageSize: %v", err)
			}
			if w.relocs == relocs && after > before {
				return violO("reclaim", "storage-grew", "a GC cycle that relocated nothing increased the reported storage from %d to %d bytes", before, after)
			}
			if v := w.Step(Op{Kind: OpFlush}); v != nil {
				return v
			}
			return nil
		}
		if cutFirst > 0 {
			nerr := len(w.GCErrors)
			if v := w.Step(Op{Kind: OpPriGC, A: threshold, V: cutFirst}); v != nil {
				return v
			}
			if v := w.Step(Op{Kind: OpIdxGC, B: false, A: cutFirst + 2}); v != nil {
				return v
			}
			// a cycle that stops at its time limit is not a failed cycle
			w.GCErrors = w.GCErrors[:nerr]
			c.count("reclaim.interrupted_first_cycles", 1)
		}
		errsBeforeLast := 0
		for i := 0; i < K; i++ {
			errsBeforeLast = len(w.GCErrors)
			if v := cycle(); v != nil {
				return v
			}
		}
		// A cycle that fails once and leaves the next cycle working (seen on
		// the pinned tree: a resumed index-GC cycle whose resume file the
		// free-file scan has just removed reports "cannot stat" once) delays
		// the release by a cycle; a collector that still fails in the K-th
		// cycle makes no progress.
		c.count("reclaim.cycles_with_errors", int64(len(w.GCErrors)))
		if len(w.GCErrors) > errsBeforeLast {
			return violO("reclaim", "no-progress", "GC cycles still fail after %d cycles: %v", K, w.GCErrors)
		}
		for _, p := range prem {
			sz, exists := fileSizeRaw(w.FS, p.path)
			if exists && sz != 0 {
				return violO("reclaim", "no-progress", "%s held no live data when the premise was established, but still has %d bytes after %d GC cycles", p.path, sz, K)
			}
			if exists && p.oldest {
				return violO("reclaim", "no-progress", "%s was the oldest file and held no live data, but still exists after %d GC cycles", p.path, K)
			}
		}
		c.count("reclaim.files_released", int64(len(prem)))
		// 3. fixed point: further cycles on the unchanged store write nothing
		if threshold >= 50 {
			// let draining of low-use files finish first
			for i := 0; i < K+2; i++ {
				if v := cycle(); v != nil {
					return v
				}
			}
			d1 := w.FS.Digest()
			n1 := w.FS.LogLen()
			for i := 0; i < 2; i++ {
				if v := cycle(); v != nil {
					return v
				}
			}
			if d2 := w.FS.Digest(); d2 != d1 {
				muts := w.FS.Log()
				first := ""
				for _, m := range muts[n1:] {
					if m.Kind == vos.MWrite || m.Kind == vos.MTrunc || (m.Kind == vos.MRemove && !strings.HasSuffix(m.Path, ".gc")) {
						first = m.String()
						break
					}
				}
				return violO("reclaim", "no-fixed-point", "two further GC cycles on an unchanged store changed the directory (first change: %s)", first)
			}
		}
		// the store still holds what the model says
		return w.Reads()
	}
}

func c11Scenarios(tier string) []*SeqScenario {
	// The collector only re-examines a file when new freelist entries touch
	// it, so the low-use threshold must be the same in every cycle of a
	// history (as it is in production: a constant): one alphabet per threshold.
	alphaFor := func(thr int) []Op {
		a := putOps([]int{0, 1, 4}, []int{1, 2})
		a = append(a, removeOps([]int{0, 1})...)
		return append(a, Op{Kind: OpFlush}, Op{Kind: OpPriGC, A: thr}, Op{Kind: OpIdxGC, B: true})
	}
	_ = alphaFor
	depth := 3
	cfgs := []Config{cfg("mh", false, 8, 1, 1), cfg("mh", false, 8, 48, 48), cfg("cid", false, 8, 1, bigFile)}
	if tier != "quick" {
		depth = 4
		cfgs = append(cfgs, cfg("mh", false, 8, 48, 1), cfg("mh", false, 8, 1, 48), cfg("mh", false, 12, 48, 48))
	}
	var scs []*SeqScenario
	// low-use draining with two live records of different sizes next to a
	// large dead one: file 0 = [K0=L70, K1=a, K3=bb], more than 80% free once
	// K0 is superseded
	lowUse := cfg("mh", false, 8, 48, 100)
	for _, thr := range []int{50, 80} {
		scs = append(scs, &SeqScenario{Prop: "C11", Name: fmt.Sprintf("c11/lowuse/thr=%d", thr), Cfg: lowUse,
			Preamble: []Op{P(0, 5), P(1, 1), P(3, 2), opF, P(4, 1), opF}, Alphabet: alphaFor(thr), Depth: depth - 1,
			Setup: withLedger, Final: reclaimFinalMode(true, true, thr, 0), Oracles: []string{"reclaim"}})
		// the surviving record is the first record of the file (offset 0)
		scs = append(scs, &SeqScenario{Prop: "C11", Name: fmt.Sprintf("c11/lowuse-first/thr=%d", thr), Cfg: lowUse,
			Preamble: []Op{P(1, 1), P(0, 5), P(3, 2), opF, P(4, 1), opF}, Alphabet: alphaFor(thr), Depth: depth - 1,
			Setup: withLedger, Final: reclaimFinalMode(true, true, thr, 0), Oracles: []string{"reclaim"}})
	}
	for _, c := range cfgs {
		for pi, pre := range gcPreambles() {
			for _, removeAll := range []bool{true, false} {
				for _, thr := range []int{85, 50} {
					if tier == "quick" && thr == 50 && !removeAll {
						continue
					}
					d := depth
					if pi > 0 {
						d = depth - 1
					}
					scs = append(scs, &SeqScenario{Prop: "C11", Name: fmt.Sprintf("c11/removeAll=%v/thr=%d", removeAll, thr), Cfg: c, Preamble: pre, Alphabet: alphaFor(thr), Depth: d,
						Setup: withLedger, Final: reclaimFinal(removeAll, thr), Oracles: []string{"reclaim"}})
					if removeAll && thr == 85 {
						// the first cycle that sees the premise is stopped by its
						// time limit (already expired / after one poll)
						for _, cut := range []int{1, 2} {
							if tier == "quick" && (cut == 2 || d < 2) {
								continue
							}
							scs = append(scs, &SeqScenario{Prop: "C11", Name: fmt.Sprintf("c11/removeAll/thr=%d/cut-first=%d", thr, cut), Cfg: c, Preamble: pre, Alphabet: alphaFor(thr), Depth: d,
								Setup: withLedger, Final: reclaimFinalMode(true, false, thr, cut), Oracles: []string{"reclaim"}})
						}
					}
					if removeAll && c.Primary == "mh" && c.PriFS > 1 {
						scs = append(scs, &SeqScenario{Prop: "C11", Name: fmt.Sprintf("c11/partial/thr=%d", thr), Cfg: c, Preamble: pre, Alphabet: alphaFor(thr), Depth: d,
							Setup: withLedger, Final: reclaimFinalMode(true, true, thr, 0), Oracles: []string{"reclaim"}})
					}
				}
			}
		}
	}
	return scs
}


// ---- C09: re-bucketing on reopen ----

func c09Bits(tier string) []uint8 {
	if tier == "quick" {
		return []uint8{8, 9, 12, 16}
	}
	return []uint8{8, 9, 12, 15, 16, 17}
}

// c09Setup fixes the key universe to the one of the larger bit size, so that
// the same keys are used before and after the change.
func c09Setup(maxBits uint8) func(w *World) {
	return func(w *World) {
		c := w.Cfg
		c.Bits = maxBits
		w.Keys, w.Probes = universe(c)
	}
}

func c09Final(b2 uint8) func(w *World, c *Collector) *Violation {
	return func(w *World, c *Collector) *Violation {
		steps := []Op{{Kind: OpFlush}, {Kind: OpRebits, A: int(b2)}, {Kind: OpReads}, {Kind: OpIterate},
			{Kind: OpPut, K: 2, V: 2}, {Kind: OpRemove, K: 0}, {Kind: OpPut, K: 1, V: 3}, {Kind: OpFlush}, {Kind: OpReads},
			{Kind: OpPut, K: 3, V: 2}, {Kind: OpFlush}, {Kind: OpPut, K: 5, V: 1}, {Kind: OpFlush}, {Kind: OpPut, K: 0, V: 1}, {Kind: OpFlush},
			{Kind: OpPut, K: 4, V: 2}, {Kind: OpFlush}, {Kind: OpReads},
			{Kind: OpReopen, A: 1}, {Kind: OpReads}, {Kind: OpRebits, A: int(b2)}, {Kind: OpReads}}
		if w.Cfg.Immutable {
			steps[6] = Op{Kind: OpReads}
		}
		for _, op := range steps {
			if v := w.Step(op); v != nil {
				v.Detail = fmt.Sprintf("(%s) %s", op, v.Detail)
				return v
			}
		}
		return nil
	}
}

func c09Scenarios(tier string) []*SeqScenario {
	alpha := putOps([]int{0, 1, 3, 4}, []int{1})
	alpha = append(alpha, Op{Kind: OpPut, K: 0, V: 2}, Op{Kind: OpRemove, K: 0}, Op{Kind: OpRemove, K: 1}, Op{Kind: OpFlush})
	depth := 3
	if tier != "quick" {
		depth = 4
	}
	var scs []*SeqScenario
	bits := c09Bits(tier)
	for _, b1 := range bits {
		for _, b2 := range bits {
			if b1 == b2 {
				continue
			}
			mb := b1
			if b2 > mb {
				mb = b2
			}
			for _, p := range []string{"mh", "cid"} {
				if tier == "quick" && p == "cid" && (b1+b2)%2 == 0 {
					continue
				}
				pfs := uint32(48)
				if p == "cid" {
					pfs = bigFile
				}
				cc := cfg(p, false, b1, 48, pfs)
				scs = append(scs, &SeqScenario{Prop: "C09", Name: fmt.Sprintf("c09/%d->%d", b1, b2), Cfg: cc, Alphabet: alpha, Depth: depth,
					Setup: c09Setup(mb), Final: c09Final(b2), Nontrivial: sharedBucketNontrivial})
				if p == "mh" && (b1 == 8 || b2 == 8) {
					// a record list that starts in the last 4 bytes below the
					// index file-size limit; an index whose first files were
					// already removed by GC (1-byte limits)
					scs = append(scs, &SeqScenario{Prop: "C09", Name: fmt.Sprintf("c09-straddle/%d->%d", b1, b2), Cfg: cc,
						Preamble: []Op{P(4, 1), opF, P(4, 2), opF, P(4, 1), opF}, Alphabet: alpha, Depth: depth - 2,
						Setup: c09Setup(mb), Final: c09Final(b2), Nontrivial: sharedBucketNontrivial})
					// single-key record lists (22 bytes) that end exactly on the
					// index file-size limit: the translation writes the whole new
					// index in one flush, so every list meets a boundary
					cx := cfg(p, false, b1, 22, 48)
					scs = append(scs, &SeqScenario{Prop: "C09", Name: fmt.Sprintf("c09-exactfit/%d->%d", b1, b2), Cfg: cx,
						Alphabet: alpha, Depth: depth - 1,
						Setup: c09Setup(mb), Final: c09Final(b2), Nontrivial: sharedBucketNontrivial})
					c1 := cfg(p, false, b1, 1, 1)
					scs = append(scs, &SeqScenario{Prop: "C09", Name: fmt.Sprintf("c09-firstfile/%d->%d", b1, b2), Cfg: c1,
						Preamble: []Op{P(0, 1), opF, P(4, 1), opF, P(0, 2), opF, P(4, 2), opF, P(0, 1), opF, {Kind: OpIdxGC, B: true}}, Alphabet: alpha, Depth: depth - 2,
						Setup: c09Setup(mb), Final: c09Final(b2), Nontrivial: sharedBucketNontrivial})
				}
			}
		}
	}
	return scs
}

// c09Mismatch checks the file-size mismatch clause: refused with the specific
// error, directory untouched, original settings still open it.
func runC09Mismatch(c *Collector) {
	if c.job.Shard != 0 {
		return
	}
	for _, p := range []string{"mh", "cid"} {
		for _, which := range []string{"index", "primary", "both", "index+bits"} {
			if p == "cid" && which != "index" {
				continue
			}
			c.res.Evaluations++
			base := cfg(p, false, 8, 48, 48)
			if p == "cid" {
				base.PriFS = bigFile
			}
			w, err := NewWorld(base)
			if err != nil {
				c.res.InfraError = err.Error()
				return
			}
			report := func(v *Violation) {
				v.Property = "C09"
				v.Config = base.String()
				v.Trigger = "file-size-mismatch:" + which
				v.History = "Put(K0,a); Put(K1,bb); Flush; Put(K4,a); Remove(K1); Close; OpenStore[" + which + " file size changed]"
				v.Replay = map[string]any{"engine": "S-mismatch", "which": which, "primary": p}
				c.violation(v, 0)
			}
			ok := true
			for _, op := range []Op{P(0, 1), P(1, 2), opF, P(4, 1), R(1)} {
				c.res.Transitions++
				if v := w.Step(op); v != nil {
					ok = false
				}
			}
			if !ok || w.Close() != nil {
				continue
			}
			before := w.FS.Digest()
			bad := *w
			if which == "index" || which == "both" || which == "index+bits" {
				bad.Cfg.IdxFS = 64
			}
			if which == "index+bits" {
				bad.Cfg.Bits = 12
			}
			if which == "primary" || which == "both" {
				bad.Cfg.PriFS = 64
			}
			err = bad.Open()
			c.res.Transitions++
			if err == nil {
				bad.Close()
				report(viol("wrong-return", "opening with a different %s file size succeeded", which))
				continue
			}
			var ie types.ErrIndexWrongFileSize
			var pe types.ErrPrimaryWrongFileSize
			switch {
			case (which == "index" || which == "index+bits") && !errors.As(err, &ie):
				report(viol("wrong-return", "opening with a different index file size failed with %q, want ErrIndexWrongFileSize", err))
				continue
			case which == "primary" && !errors.As(err, &pe):
				report(viol("wrong-return", "opening with a different primary file size failed with %q, want ErrPrimaryWrongFileSize", err))
				continue
			case which == "both" && !errors.As(err, &pe) && !errors.As(err, &ie):
				report(viol("wrong-return", "opening with different file sizes failed with %q, want a file-size mismatch error", err))
				continue
			}
			if w.FS.Digest() != before {
				report(viol("wrong-return", "the refused open (%v) modified the store's files", err))
				continue
			}
			if err := w.Open(); err != nil {
				report(viol("open-error", "after the refused open the original settings no longer open the store: %v", err))
				continue
			}
			if v := w.Reads(); v != nil {
				report(v)
			}
			w.Close()
			c.stateKey("mismatch:" + p + which)
			c.count("nontrivial", 1)
		}
	}
}

// recoverC09: a crash image of an interrupted re-bucketing must, for the old
// and for the new bit size, either refuse to open or open with every key that
// was there before.
func recoverC09(sc *CrashScenario, img vos.Image, info crashInfo, c *Collector) *Violation {
	want := info.models[len(info.models)-2] // model before the re-bucketing op
	if info.inFlight >= 0 {
		want = info.models[info.inFlight]
	}
	newBits := uint8(info.hist[info.inFlight].A)
	for _, bits := range []uint8{sc.Cfg.Bits, newBits} {
		cc := sc.Cfg
		cc.Bits = bits
		fw := &World{Cfg: cc, FS: vos.FromImage(img), Model: map[string][]byte{}, GCInt: 1000 * 3600e9, Sync: 1000 * 3600e9, Keys: info.keys, Probes: info.probes}
		setMapOrder(cc)
		var v *Violation
		func() {
			defer func() {
				if r := recover(); r != nil {
					v = violO("crash", "panic", "panic opening the interrupted re-bucketing with %d bits: %v", bits, r)
					fw.opened = false
				}
			}()
			if err := fw.Open(); err != nil {
				c.count("c09.refused_opens", 1)
				return
			}
			c.count("c09.successful_opens", 1)
			for _, k := range info.keys {
				wv, present := want[string(k.Digest)]
				if !present {
					continue
				}
				got, found, err := fw.S.Get(k.Raw)
				if err != nil || !found || !bytes.Equal(got, wv) {
					v = violO("crash", "key-lost", "interrupted re-bucketing %d->%d opens successfully with %d bits but Get(%s) = (%q,%v,%v), before the change it held %q", sc.Cfg.Bits, newBits, bits, k.Name, got, found, err, wv)
					v.Trigger = fmt.Sprintf("open-with-%s-bits", map[bool]string{true: "old", false: "new"}[bits == sc.Cfg.Bits])
					return
				}
			}
		}()
		func() {
			defer func() { recover() }()
			fw.Close()
		}()
		if v != nil {
			return v
		}
	}
	// Life goes on after an interrupted re-bucketing: open with the old size,
	// change the contents, close, and re-bucket again. What the interrupted
	// attempt left behind must not leak into the second attempt.
	cc := sc.Cfg
	fw := &World{Cfg: cc, FS: vos.FromImage(img), Model: map[string][]byte{}, GCInt: 1000 * 3600e9, Sync: 1000 * 3600e9, Keys: info.keys, Probes: info.probes, crashed: true}
	setMapOrder(cc)
	var v *Violation
	func() {
		defer func() {
			if r := recover(); r != nil {
				v = violO("crash", "panic", "panic in the continuation after an interrupted re-bucketing: %v", r)
				fw.opened = false
			}
		}()
		if err := fw.Open(); err != nil {
			return
		}
		// the contents as recovered (what the old-size open lost is TR1's
		// business, reported above)
		for _, k := range info.keys {
			got, found, err := fw.S.Get(k.Raw)
			if err != nil {
				return
			}
			if found {
				fw.Model[string(k.Digest)] = append([]byte{}, got...)
			}
		}
		var present []int
		for i, k := range info.keys {
			if _, ok := fw.Model[string(k.Digest)]; ok {
				present = append(present, i)
			}
		}
		cont := []Op{}
		if len(present) > 0 {
			cont = append(cont, Op{Kind: OpRemove, K: present[0]})
		}
		if len(present) > 1 {
			cont = append(cont, Op{Kind: OpPut, K: present[1], V: 3})
		}
		cont = append(cont, Op{Kind: OpPut, K: 2, V: 1}, Op{Kind: OpFlush}, Op{Kind: OpRebits, A: int(newBits)}, Op{Kind: OpReads}, Op{Kind: OpIterate},
			Op{Kind: OpReopen, A: 1}, Op{Kind: OpReads})
		for _, op := range cont {
			c.res.Transitions++
			if sv := fw.Step(op); sv != nil {
				if op.Kind == OpRebits && sv.Symptom == "open-error" {
					// a refused open is not "opens successfully with fewer keys"
					c.count("c09.refused_opens", 1)
					fw.opened = false
					return
				}
				v = sv
				v.Oracle = "crash"
				v.Symptom = "post-recovery:" + v.Symptom
				v.Trigger = "second-rebucketing-after-interrupted-one"
				v.Detail = fmt.Sprintf("interrupted re-bucketing %d->%d, then open with %d bits, [%s] (failed at %s): %s", sc.Cfg.Bits, newBits, sc.Cfg.Bits, opsString(cont), op, v.Detail)
				return
			}
		}
		c.count("c09.second_rebucketing_checked", 1)
	}()
	func() {
		defer func() { recover() }()
		fw.Close()
	}()
	if v != nil {
		return v
	}
	return nil
}

func c09CrashScenarios(tier string) []*CrashScenario {
	pairs := [][2]uint8{{8, 12}, {16, 8}}
	if tier != "quick" {
		pairs = append(pairs, [2]uint8{8, 9}, [2]uint8{12, 16}, [2]uint8{9, 8})
	}
	var scs []*CrashScenario
	for _, pr := range pairs {
		for _, pre := range [][]Op{
			{P(0, 1), P(1, 1), P(4, 1), opF, P(0, 2), {Kind: OpReopen, A: 0}},
			{P(0, 1), opF, P(1, 2), opF, R(0), P(3, 1), {Kind: OpReopen, A: 0}},
		} {
			cc := cfg("mh", false, pr[0], 48, 48)
			b2 := pr[1]
			scs = append(scs, &CrashScenario{Prop: "C09", Name: fmt.Sprintf("c09x/%d->%d", pr[0], b2), Cfg: cc, Preamble: pre,
				Alphabet: []Op{{Kind: OpRebits, A: int(b2)}}, Depth: 1, Recover: recoverC09, Oracles: []string{"crash"},
				Allow: func(hist []Op) bool { return true }})
		}
	}
	return scs
}


// ---- C10: legacy single-file stores ----

// legacyStore builds a legacy-format store (version-2 single-file index with
// its 6-byte header, unversioned single-file primary, legacy freelist) from a
// history: the history is run on a current store with file-size limits so
// large that everything stays in file 0 — record formats and offsets of file 0
// are exactly the legacy ones — and the files are then re-labelled. cut > 0
// removes that many bytes from the end of the primary (entries whose data no
// longer exists).
type legacyStore struct {
	img   vos.Image
	model map[string][]byte
	keys  []Key
	probe []Key
	lost  map[string]bool // keys whose primary record was cut off
}

func buildLegacy(bits uint8, hist []Op, cut int, withFreelist bool) (*legacyStore, error) {
	w, err := NewWorld(cfg("mh", false, bits, bigFile, bigFile))
	if err != nil {
		return nil, err
	}
	for _, op := range hist {
		if v := w.Step(op); v != nil {
			w.Close()
			return nil, fmt.Errorf("legacy generator history failed: %s", v.Detail)
		}
	}
	locs := w.locateAll()
	if err := w.Close(); err != nil {
		return nil, err
	}
	idx0, _ := w.FS.ReadFileRaw(idxPath + ".0")
	dat0, _ := w.FS.ReadFileRaw(dataPath + ".0")
	free, _ := w.FS.ReadFileRaw(idxPath + ".free")
	ls := &legacyStore{model: copyModel(w.Model), keys: w.Keys, probe: w.Probes, lost: map[string]bool{}}
	if cut > 0 && cut < len(dat0) {
		dat0 = dat0[:len(dat0)-cut]
		for d, b := range locs {
			if int(b.Offset)+4+int(b.Size) > len(dat0) {
				ls.lost[d] = true
				delete(ls.model, d)
			}
		}
	}
	fs := vos.NewMemFS()
	fs.MkdirRaw("/s")
	fs.WriteFileRaw(idxPath, append([]byte{2, 0, 0, 0, 2, bits}, idx0...))
	fs.WriteFileRaw(dataPath, dat0)
	if withFreelist {
		fs.WriteFileRaw(idxPath+".free", free)
	}
	ls.img = fs.Image()
	return ls, nil
}

func legacyHistories(tier string) [][]Op {
	hs := [][]Op{
		{P(0, 1), P(1, 1), P(4, 1), opF},
		{P(0, 1), P(1, 2), opF, P(0, 2), P(3, 1), opF, R(1), opF},
		{P(0, 5), P(1, 1), opF, P(0, 1), P(2, 2), P(4, 5), opF, P(4, 1), opF},
		{P(0, 1), opF},
		{},
		{P(3, 1), P(0, 1), P(1, 1), opF},
	}
	if tier != "quick" {
		hs = append(hs,
			[]Op{P(0, 1), P(1, 1), P(2, 1), P(3, 1), P(4, 1), opF, R(0), R(2), opF, P(0, 2), opF},
			[]Op{P(4, 5), P(0, 5), opF, P(4, 2), P(0, 2), opF, P(4, 5), opF},
		)
	}
	return hs
}

func c10Check(w *World, want map[string][]byte) *Violation {
	w.Model = copyModel(want)
	if v := w.Reads(); v != nil {
		return v
	}
	if v := w.Iterate(); v != nil {
		return v
	}
	return nil
}

func runC10Seq(c *Collector) {
	// 24 = two 12-byte records, 36 = three, 44 = two 22-byte record lists:
	// chunks that end exactly on the limit
	sizes := []uint32{1, 24, 36, 40, 44, 64, bigFile}
	cuts := []int{0, 3, 20}
	unit := 0
	for hi, hist := range legacyHistories(c.job.Tier) {
		for _, cut := range cuts {
			for _, withFL := range []bool{true, false} {
				for _, ifs := range sizes {
					for _, pfs := range sizes {
						unit++
						if unit%c.job.NShards != c.job.Shard {
							continue
						}
						if c.job.Tier == "quick" && ifs != pfs && (hi+int(ifs)+int(pfs))%2 != 0 {
							continue
						}
						c.res.Evaluations++
						ls, err := buildLegacy(8, hist, cut, withFL)
						if err != nil {
							continue
						}
						report := func(v *Violation) {
							v.Property = "C10"
							v.Config = fmt.Sprintf("index file size %d, primary file size %d, freelist=%v, cut=%d", ifs, pfs, withFL, cut)
							v.History = "legacy store from [" + opsString(hist) + "]; OpenStore"
							v.Replay = map[string]any{"engine": "S-legacy", "hist": hist, "cut": cut, "freelist": withFL, "ifs": ifs, "pfs": pfs}
							c.violation(v, len(hist))
						}
						w := &World{Cfg: cfg("mh", false, 8, ifs, pfs), FS: vos.FromImage(ls.img), Model: map[string][]byte{}, GCInt: 1000 * 3600e9, Sync: 1000 * 3600e9, Keys: ls.keys, Probes: ls.probe}
						setMapOrder(w.Cfg)
						func() {
							defer func() {
								if r := recover(); r != nil {
									report(viol("panic", "panic: %v", r))
									w.opened = false
								}
							}()
							c.res.Transitions++
							if err := w.Open(); err != nil {
								report(viol("open-error", "upgrade open: %v", err))
								return
							}
							if v := c10Check(w, ls.model); v != nil {
								v.Detail = "after the upgrade: " + v.Detail
								report(v)
								return
							}
							for _, op := range []Op{P(2, 3), R(0), P(1, 2), opF, {Kind: OpReads}, {Kind: OpPriGC, A: 50}, {Kind: OpIdxGC, B: true}, {Kind: OpReads}, {Kind: OpReopen, A: 1}, {Kind: OpReads}} {
								c.res.Transitions++
								if v := w.Step(op); v != nil {
									v.Detail = fmt.Sprintf("continuation after the upgrade (%s): %s", op, v.Detail)
									report(v)
									return
								}
							}
							if len(ls.model) >= 2 {
								c.count("nontrivial", 1)
							}
							c.state(w.FS.Digest())
							if c.res.Evaluations%40 == 1 {
								c.sample(map[string]any{"legacy_from": opsString(hist), "index_file_size": ifs, "primary_file_size": pfs, "freelist": withFL, "cut_bytes": cut})
							}
						}()
						func() {
							defer func() { recover() }()
							w.Close()
						}()
					}
				}
			}
		}
	}
}

// recoverC10: reopening an interrupted upgrade completes it with the same
// result as the uninterrupted one.
func recoverC10(sc *CrashScenario, img vos.Image, info crashInfo, c *Collector) (v *Violation) {
	want := sc.Want
	fw := &World{Cfg: sc.Cfg, FS: vos.FromImage(img), Model: map[string][]byte{}, GCInt: 1000 * 3600e9, Sync: 1000 * 3600e9, Keys: info.keys, Probes: info.probes}
	setMapOrder(sc.Cfg)
	defer func() {
		if r := recover(); r != nil {
			v = violO("crash", "panic", "panic resuming the upgrade: %v", r)
			fw.opened = false
		}
		func() {
			defer func() { recover() }()
			fw.Close()
		}()
	}()
	if err := fw.Open(); err != nil {
		return violO("crash", "open-error", "reopening the interrupted upgrade: %v", err)
	}
	if mv := c10Check(fw, want); mv != nil {
		mv.Oracle = "crash"
		mv.Detail = "after resuming the interrupted upgrade: " + mv.Detail
		if sc.Dropped {
			// the legacy store had index entries whose primary data is gone
			mv.Trigger = "upgrade-drops-entries+crash-in-upgrade"
		}
		return mv
	}
	for _, op := range []Op{P(2, 3), R(0), opF, {Kind: OpPriGC, A: 50}, {Kind: OpIdxGC, B: true}, {Kind: OpReads}, {Kind: OpReopen, A: 1}, {Kind: OpReads}} {
		c.res.Transitions++
		if mv := fw.Step(op); mv != nil {
			mv.Oracle = "crash"
			mv.Symptom = "post-recovery:" + mv.Symptom
			mv.Detail = fmt.Sprintf("continuation after the resumed upgrade (%s): %s", op, mv.Detail)
			return mv
		}
	}
	return nil
}

func c10CrashScenarios(tier string) []*CrashScenario {
	var scs []*CrashScenario
	sizes := [][2]uint32{{40, 40}, {1, 1}, {bigFile, 64}}
	if tier != "quick" {
		sizes = append(sizes, [2]uint32{64, 1}, [2]uint32{bigFile, bigFile})
	}
	// (the whole set costs a few seconds: quick and thorough differ only in
	// the histories legacyHistories adds for thorough)
	hists := legacyHistories(tier)
	cuts := []int{0, 3, 20}
	sizes = append(sizes, [2]uint32{24, 36}, [2]uint32{44, 24})
	for hi, hist := range hists {
		for _, sz := range sizes {
			for _, cut := range cuts {
				ls, err := buildLegacy(8, hist, cut, true)
				if err != nil {
					continue
				}
				sc := &CrashScenario{Prop: "C10", Name: fmt.Sprintf("c10x/h%d/%d-%d/cut%d", hi, sz[0], sz[1], cut), Cfg: cfg("mh", false, 8, sz[0], sz[1]),
					Depth: 0, Recover: recoverC10, Oracles: []string{"crash"}, Base: &ls.img, Want: ls.model, BaseKeys: ls.keys, BaseProbes: ls.probe, Dropped: len(ls.lost) > 0}
				scs = append(scs, sc)
			}
		}
	}
	return scs
}

type largePreamble struct {
	name  string
	ops   []Op
	depth int
	bulk  bool
}

func largeStatePreambles() []largePreamble {
	P := func(k, v int) Op { return Op{Kind: OpPut, K: k, V: v} }
	F := Op{Kind: OpFlush}
	// 360 overwrites of two keys: 360 freelist entries = 4320 bytes, more
	// than one 4096-byte buffer of the reader GC uses on the hand-over file
	var bulk []Op
	bulk = append(bulk, P(0, 1), P(1, 1), P(4, 1), F)
	for i := 0; i < 360; i++ {
		bulk = append(bulk, P(i%2, 1+(i/2+1)%2))
		if i%120 == 119 {
			bulk = append(bulk, F)
		}
	}
	bulk = append(bulk, F)
	return []largePreamble{
		{"bulk-freelist", bulk, 1, true},
		{"restart-with-pending-freelist", []Op{P(0, 1), P(1, 1), P(4, 1), F, P(0, 2), P(1, 2), F, {Kind: OpReopen, A: 0}}, 2, false},
	}
}
