package harness

import (
	"encoding/json"
	"fmt"
	"os"
	"testing"
)

// TestVerif is the single entry point of the worker binary. The orchestrator
// (/verif/vcheck) passes a Job in VERIF_JOB.
func TestVerif(t *testing.T) {
	if p := os.Getenv("VERIF_PLAIN"); p != "" {
		src, err := emitPlain(p)
		if err != nil {
			fmt.Printf("VERIF-PLAIN-ERROR %v\n", err)
			return
		}
		fmt.Printf("VERIF-PLAIN-BEGIN\n%sVERIF-PLAIN-END\n", src)
		return
	}
	raw := os.Getenv("VERIF_JOB")
	if raw == "" {
		t.Skip("VERIF_JOB not set")
	}
	var job Job
	if err := json.Unmarshal([]byte(raw), &job); err != nil {
		t.Fatalf("bad VERIF_JOB: %v", err)
	}
	if job.NShards == 0 {
		job.NShards = 1
	}
	if job.Tier == "" {
		job.Tier = "quick"
	}
	c := newCollector(job)
	defer func() {
		if r := recover(); r != nil {
			c.res.InfraError = fmt.Sprintf("worker panic: %v", r)
			c.finish()
			panic(r)
		}
	}()
	if job.Replay != "" {
		runReplay(t, c, job.Replay)
	} else {
		run, ok := registry[job.Prop]
		if !ok {
			t.Fatalf("unknown property %q", job.Prop)
		}
		run(t, c)
	}
	if err := c.finish(); err != nil {
		t.Fatal(err)
	}
}

var registry = map[string]func(t *testing.T, c *Collector){
	"FIDELITY": func(t *testing.T, c *Collector) { runFidelity(c) },
	"C16": func(t *testing.T, c *Collector) {
		c.res.Rule = "schedules (<= bound preemptions at lock-acquisition and file-system-call granularity) of 2-3 threads drawn from Put/Get/Has/GetSize/Remove/Flush/iteration/storage-size queries/file-cache resizing and index-GC / primary-GC cycles, executed in a -race build on the real file system with a scheduler hand-off the race detector cannot see (plain memory in go:norace functions), so that along every schedule only the program's own synchronisation orders accesses; every DATA RACE report is a violation, fingerprinted by the two access sites; non-trivial = every execution (all have >= 2 threads on shared state)"
		scs := c16Scenarios(c.job.Tier)
		c.res.Bound = fmt.Sprintf("%d scenarios, preemption bound %d", len(scs), scs[0].Bound)
		runConcScenarios(t, c, scs)
		iters := 15
		if c.job.Tier != "quick" {
			iters = 100
		}
		freeRunRace(c, scs, iters)
		c.res.Engine = "R (schedule enumerator in a -race build with a detector-invisible hand-off, real file system) + free-running -race pass of the same scenario bodies"
	},
	"C10": func(t *testing.T, c *Collector) {
		c.res.Rule = "legacy stores (version-2 single-file index, unversioned single-file primary, legacy freelist present or absent, primary tail cut off or not) generated from a set of histories with overwrites and removals; opened with every combination of index/primary file-size limits from {1,40,64,default}: contents must equal the generating map (cut-off keys absent), through a continuation with GC and a rescan reopen; every crash point and torn write of the upgrading open: reopening must complete the upgrade with the same contents; non-trivial = stores with >= 2 keys, plus torn images"
		c.withShare(0.5, func() { runC10Seq(c) })
		runCrashScenarios(c, c10CrashScenarios(c.job.Tier))
		c.count("nontrivial", c.res.Counters["torn_images"])
		c.res.Engine = "S + X (legacy-store generator x file-size limits; crash-image enumerator over the upgrading open)"
	},
	"C09": func(t *testing.T, c *Collector) {
		c.res.Rule = "contents = end states of every history of <= depth ops over a colliding-key alphabet (multi-file index), closed under bit size b1 and reopened under b2 for every ordered pair of the bit-size set, then reads, iteration, a continuation, reopen (rescan) and reopen with b2 again against the reference map; file-size mismatches (index / primary / both) must be refused with the specific error, leave the directory byte-identical and the original settings working; every crash point and torn write of the re-bucketing reopen: opening the image with b1 and with b2 must each fail or show every previous key; non-trivial = histories ending with >= 2 keys sharing a bucket, plus torn images"
		c.withShare(0.6, func() { runSeqScenarios(c, c09Scenarios(c.job.Tier)) })
		runC09Mismatch(c)
		xs := c09CrashScenarios(c.job.Tier)
		for _, x := range xs {
			x.SkipEmpty = true
		}
		runCrashScenarios(c, xs)
		c.count("nontrivial", c.res.Counters["torn_images"])
		c.res.Engine = "S + X (sequential history enumerator over bit-size pairs; crash-image enumerator over the re-bucketing reopen)"
	},
	"C11": func(t *testing.T, c *Collector) {
		c.res.Rule = "every history of <= depth ops (Put/Remove/Flush/GC) after each preamble x configuration is completed by superseding every live record (remove all / overwrite all) + Flush; non-current primary files without live records and non-current index files without bucket references are the premise files; then K = ceil(records/2)+3 cycles of PrimaryGC(threshold)+IndexGC+Flush: premise files must be empty (and gone if they were the oldest), reported storage must not grow in a cycle that relocated nothing, and after draining two further cycles must leave the directory byte-identical; non-trivial = histories with at least one premise file"
		runSeqScenarios(c, c11Scenarios(c.job.Tier))
	},
	"C08": func(t *testing.T, c *Collector) { runC08(c) },
	"C14": func(t *testing.T, c *Collector) {
		c.withShare(0.6, func() { runC14(c) })
		engine, rule, bound := c.res.Engine, c.res.Rule, c.res.Bound
		scs := c14ConcScenarios(c.job.Tier)
		runConcScenarios(t, c, scs)
		c.res.Engine = engine + " + A (two threads on one FileCache, all interleavings at lock / file-system-call granularity)"
		c.res.Rule = rule + "; concurrent part: 6 two-thread programs x capacities 0-2, every handle must be readable by its holder until it releases it, invariants at quiescence"
		c.res.Bound = bound + fmt.Sprintf("; %d concurrent scenarios with preemption bound %d", len(scs), scs[0].Bound)
	},
	"C17": func(t *testing.T, c *Collector) {
		c.res.Rule = "all interleavings (<= bound preemptions) of Close with the real flusher goroutine and both GC goroutines, with ticks of the fake clock placing a flush, a primary-GC cycle and/or an index-GC cycle in progress, optionally a concurrent writer; oracle at the moment Close returns: nil error, no goroutine executing store code (runtime.Stack census), 0 open descriptors (MemFS ledger); after 3x the GC interval of fake time: no file-system mutation, census still empty; the directory reopens as a linearization of the acknowledged calls, also after a further GC round; plus failing opens and 20 open/close cycles (sequential), plus single-fault enumeration: one EIO at the n-th file-system call of open/ops/close, re-bucketing open/close and reads/close sequences, for every n, same resource oracle; non-trivial = two threads alternated on the same lock or file"
		scs := c17Scenarios(c.job.Tier)
		c.res.Bound = fmt.Sprintf("%d scenarios, preemption bound %d (GC-in-progress scenarios: %d); 8 failing-open situations; 20 open/close cycles", len(scs), scs[0].Bound, scs[0].Bound-1)
		if os.Getenv("VERIF_ONLY") == "faults" { // development aid
			runC17Faults(t, c)
			return
		}
		runC17Seq(t, c)
		runC17Faults(t, c)
		runConcScenarios(t, c, scs)
	},
	"C12": func(t *testing.T, c *Collector) {
		c.res.Rule = "all interleavings (<= bound preemptions, <= n ticks of the fake clock) of rate-limited writers' back-pressure steps with the real flusher goroutine, the sync ticker and explicit Flush calls; oracle: channel statements are scheduling points too; when nothing is enabled any more (every flush that was asked for, and every tick of the scenario, has completed) no writer may still be waiting (else stuck-writer), calls return without error and the history is linearizable; non-trivial = two threads alternated on the same lock or file"
		scs := c12Scenarios(c.job.Tier)
		maxTicks := 0
		for _, sc := range scs {
			if sc.Ticks > maxTicks {
				maxTicks = sc.Ticks
			}
		}
		c.res.Bound = fmt.Sprintf("%d scenarios, preemption bound %d, <= %d ticks", len(scs), scs[0].Bound, maxTicks)
		runConcScenarios(t, c, scs)
	},
	"C06": func(t *testing.T, c *Collector) {
		c.res.Rule = "all interleavings (<= bound preemptions) of one index-GC or primary-GC cycle running as a thread (every file-system call of the cycle is a scheduling point) with a caller thread aimed at keys whose records live in the files being collected, from multi-file initial states with superseded record lists and freed records; oracle: no call fails, history + quiescent reads linearizable, Flush+Close+reopen reads the same; non-trivial = two threads alternated on the same lock or file"
		scs := c06Scenarios(c.job.Tier)
		c.res.Bound = fmt.Sprintf("%d scenarios, preemption bound %d", len(scs), scs[0].Bound)
		runConcScenarios(t, c, scs)
	},
	"C05": func(t *testing.T, c *Collector) {
		c.res.Rule = "all interleavings (<= bound preemptions) at lock-acquisition and file-system-call granularity of 2-3 caller threads (1-2 calls each on keys sharing a bucket and stored prefixes) with or without a concurrent Flush, from 6 initial states; oracle: every call returns without error, porcupine finds a linearization of the call/return history extended by quiescent final reads; non-trivial = two threads alternated on the same lock or file"
		scs := c05Scenarios(c.job.Tier)
		c.res.Bound = fmt.Sprintf("%d scenarios, preemption bound %d", len(scs), scs[0].Bound)
		runConcScenarios(t, c, scs)
	},
	"C03": func(t *testing.T, c *Collector) {
		c.res.Rule = "every crash point (between consecutive file-system mutations) and every torn byte-prefix of every write of the last op of every history of <= depth ops (Put/Remove/Flush/IndexGC/PrimaryGC/Close+Open) after each preamble x configuration, incl. the initial Open; recovery by the real OpenStore; oracle: per-key allowed-value sets + continuation battery through GC and reopen; evaluations = distinct (image, allowed-set) pairs recovered; non-trivial = torn-write images"
		if os.Getenv("VERIF_ONLY") != "conc" { // development aid: concurrent part alone
			// (at most 60% of the budget, so that the concurrent part runs
			// in the thorough tier too)
			c.withShare(0.6, func() { runCrashScenarios(c, c03Scenarios("C03", c.job.Tier)) })
		}
		c.count("nontrivial", c.res.Counters["torn_images"])
		if os.Getenv("VERIF_ONLY") != "seq" {
			engine := c.res.Engine
			scs := c03ConcScenarios(c.job.Tier)
			runConcScenarios(t, c, scs)
			c.res.Engine = engine + " + A+X (every crash point of every enumerated interleaving of a Flush / GC thread with callers)"
			c.res.Rule += "; concurrent part: every schedule (<= bound preemptions) of a Flush or GC thread against callers is followed by the crash-image enumeration of that execution's own mutation log, with allowed-value sets derived from the call/return history (a write is ruled out only if a later write to the key returned before a Flush was invoked that completed before the crash)"
			c.res.Bound += fmt.Sprintf("; %d concurrent crash scenarios with preemption bound %d", len(scs), scs[0].Bound)
		}
	},
	"C15": func(t *testing.T, c *Collector) { runC15(c) },
	"C02": func(t *testing.T, c *Collector) {
		c.res.Rule = "every sequence of <= depth ops with Close/reopen (snapshot kept / deleted / damaged / double Close) and GC cycles at every position (<= 2 reopens per history); at the end the directory image is forked and reopened through the snapshot and through a rescan and both must denote identical record lists and reads; non-trivial = history contains a reopen and ends with a non-empty store"
		runSeqScenarios(c, c02Scenarios(c.job.Tier))
	},
	"C07": func(t *testing.T, c *Collector) {
		c.res.Rule = "fsck (independent reader of every file format) on every quiescent state reached: after Flush against the live bucket table, after Close against snapshot and rescan; histories as in C04; non-trivial = a GC op mutated the file system"
		// cheapest part first: a share that is not used up is available to
		// the parts after it
		c.withShare(0.3, func() { runConcScenarios(t, c, c07ConcScenarios(c.job.Tier)) })
		c.withShare(0.5, func() { runCrashScenarios(c, c03Scenarios("C07", c.job.Tier)) })
		runSeqScenarios(c, gcScenarios("C07", c.job.Tier))
		c.res.Engine = "S + X + A (fsck on every quiescent state of the GC history enumeration, on every recovered crash image, and at quiescence of every interleaving of the C06 scenarios with one preemption less)"
	},
	"C13": func(t *testing.T, c *Collector) {
		c.res.Rule = "freed-location ledger on every history of the C04 universe: the multiset of locations that stopped being current must equal the multiset of entries ever appended to the freelist (from the MemFS log) and, after a complete cycle, the multiset presented to the primary GC; non-trivial = at least one location was superseded"
		c.withShare(0.4, func() { runConcScenarios(t, c, c13ConcScenarios(c.job.Tier)) })
		runSeqScenarios(c, gcScenarios("C13", c.job.Tier))
		c.res.Engine = "S + A (ledger oracle on every sequential GC history and on every interleaving of freelist Put / Flush / hand-over scenarios)"
	},
	"C04": func(t *testing.T, c *Collector) {
		c.res.Rule = "every sequence of <= depth ops (Put/Remove/Flush/IndexGC/PrimaryGC[/deadline cuts/Reopen]) after each preamble x configuration; GC ops are identities in the reference map; non-trivial = a GC op mutated the file system in that history"
		runSeqScenarios(c, gcScenarios("C04", c.job.Tier))
	},
	"C01": func(t *testing.T, c *Collector) {
		c.res.Rule = "every sequence of <= depth ops over the alphabet x every configuration; non-trivial = at least two present keys share a bucket (and stored prefix bytes) at the end of the history; distinct by construction (each history enumerated once)"
		runSeqScenarios(c, c01Scenarios(c.job.Tier))
	},
}
