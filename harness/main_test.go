package harness

import (
	"encoding/json"
	"fmt"
	"os"
	"testing"
)

// TestVerif is the single entry point of the worker binary. The orchestrator
// (/verif/vcheck) passes a Job in VERIF_JOB.
func TestVerif(t *testing.T) {
	raw := os.Getenv("VERIF_JOB")
	if raw == "" {
		t.Skip("VERIF_JOB not set")
	}
	var job Job
	if err := json.Unmarshal([]byte(raw), &job); err != nil {
		t.Fatalf("bad VERIF_JOB: %v", err)
	}
	if job.NShards == 0 {
		job.NShards = 1
	}
	if job.Tier == "" {
		job.Tier = "quick"
	}
	c := newCollector(job)
	defer func() {
		if r := recover(); r != nil {
			c.res.InfraError = fmt.Sprintf("worker panic: %v", r)
			c.finish()
			panic(r)
		}
	}()
	run, ok := registry[job.Prop]
	if !ok {
		t.Fatalf("unknown property %q", job.Prop)
	}
	run(t, c)
	if err := c.finish(); err != nil {
		t.Fatal(err)
	}
}

var registry = map[string]func(t *testing.T, c *Collector){
	"C01": func(t *testing.T, c *Collector) {
		c.res.Rule = "every sequence of <= depth ops over the alphabet x every configuration; non-trivial = at least two present keys share a bucket (and stored prefix bytes) at the end of the history; distinct by construction (each history enumerated once)"
		runSeqScenarios(c, c01Scenarios(c.job.Tier))
	},
}
