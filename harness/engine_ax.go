package harness

import (
	"fmt"
	"sort"
	"strings"

	"github.com/ipld/go-storethehash/verifshim/vos"
)

// Engine A+X — crash points of concurrent executions. Engine X enumerates the
// crash points of *sequential* histories, in which a flush never overlaps a
// caller. Here every schedule enumerated by engine A (a Flush or GC thread
// interleaved with callers at lock / file-system-call granularity) is
// followed, after its bubble has ended, by the crash-image enumeration of that
// execution's own mutation log: every prefix and every torn write is rebuilt,
// reopened by the real OpenStore and checked against allowed-value sets that
// are derived from the recorded call/return history:
//
//   - a write (Put / Remove, and the initial flushed content) is a candidate
//     for key k if it was invoked before the crash point;
//   - a candidate w is ruled out if some other write w' to k began after w
//     returned and w' itself returned before a Flush was invoked whose last
//     file-system mutation precedes the crash point (then that Flush was bound
//     to make w' or something later durable);
//   - the recovered value of k must be the value of a remaining candidate.
//
// That is C03's statement read for overlapping calls: nothing flushed is lost,
// nothing unwritten appears; which of the overlapping acknowledged or in-flight
// writes survives is left open.

type crashJob struct {
	cfg    Config
	base   *vos.Image
	log    []vos.Mut
	recs   []callRec
	init   map[string][]byte // digest -> value, all flushed before the threads start
	keys   []Key
	probes []Key
}

type axWrite struct {
	val      []byte
	remove   bool
	call     int // logical clock
	ret      int
	logCall  int
	returned bool
	failed   bool
	initial  bool
}

// allowedAt computes, for a crash with the first p mutations applied, the
// allowed values of every key.
func (j *crashJob) allowedAt(p int) map[string]*axAllowed {
	out := map[string]*axAllowed{}
	var flushes []callRec
	for _, r := range j.recs {
		if r.Op.Kind == OpFlush && r.Returned && r.Err == "" && r.LogRet <= p {
			flushes = append(flushes, r)
		}
	}
	for _, k := range append(append([]Key{}, j.keys...), j.probes...) {
		var ws []axWrite
		if v, ok := j.init[string(k.Digest)]; ok {
			ws = append(ws, axWrite{val: v, call: -2, ret: -1, returned: true, initial: true})
		} else {
			ws = append(ws, axWrite{remove: true, call: -2, ret: -1, returned: true, initial: true})
		}
		for _, r := range j.recs {
			if r.Key != k.Name || (r.Op.Kind != OpPut && r.Op.Kind != OpRemove) {
				continue
			}
			if r.Call == 0 || r.LogCall > p {
				continue // not invoked before the crash
			}
			w := axWrite{call: r.Call, ret: r.Ret, logCall: r.LogCall, returned: r.Returned, failed: r.Err != ""}
			if r.Op.Kind == OpPut {
				w.val = values[r.Op.V]
				if w.val == nil {
					w.val = []byte{}
				}
			} else {
				w.remove = true
			}
			ws = append(ws, w)
		}
		a := &axAllowed{}
		for i, w := range ws {
			ruled := false
			for i2, w2 := range ws {
				if i2 == i || !w2.returned || w2.failed || !w.returned || !(w.ret < w2.call) {
					continue
				}
				for _, f := range flushes {
					if w2.ret < f.Call {
						ruled = true
					}
				}
			}
			if ruled {
				continue
			}
			if w.remove {
				a.absentOK = true
			} else {
				a.add(w.val)
			}
		}
		out[k.Name] = a
	}
	return out
}

type axAllowed struct {
	vals     [][]byte
	absentOK bool
}

func (a *axAllowed) add(v []byte) {
	for _, x := range a.vals {
		if string(x) == string(v) {
			return
		}
	}
	a.vals = append(a.vals, v)
}

func allowedSig(m map[string]*axAllowed) string {
	names := make([]string, 0, len(m))
	for n := range m {
		names = append(names, n)
	}
	sort.Strings(names)
	var sb strings.Builder
	for _, n := range names {
		a := m[n]
		vs := make([]string, 0, len(a.vals))
		for _, v := range a.vals {
			vs = append(vs, string(v))
		}
		sort.Strings(vs)
		fmt.Fprintf(&sb, "%s=%q/%v;", n, vs, a.absentOK)
	}
	return sb.String()
}

// inFlightAt lists the calls in flight at crash point p.
func (j *crashJob) inFlightAt(p int) (fl []callRec) {
	for _, r := range j.recs {
		if r.Call == 0 || r.LogCall > p {
			continue
		}
		if !r.Returned || r.LogRet > p {
			fl = append(fl, r)
		}
	}
	return
}

// crashCheck enumerates the crash images of one concurrent execution.
func (e *Explorer) crashCheck(x *execResult) []*Violation {
	j := x.crash
	if e.crashSeen == nil {
		e.crashSeen = map[[40]byte]struct{}{}
	}
	sc := &CrashScenario{Prop: e.sc.Prop, Name: e.sc.Name, Cfg: j.cfg}
	c := e.c
	var found []*Violation
	fps := map[string]bool{}
	check := func(p, torn int) {
		img := vos.CrashImage(j.base, j.log, p, torn)
		d := img.Digest()
		allowed := j.allowedAt(p)
		var key [40]byte
		copy(key[:], d[:])
		h := fnv64(allowedSig(allowed))
		for i := 0; i < 8; i++ {
			key[32+i] = byte(h >> (8 * i))
		}
		c.count("crash_images", 1)
		if _, dup := e.crashSeen[key]; dup {
			c.count("crash_images_deduplicated", 1)
			return
		}
		e.crashSeen[key] = struct{}{}
		c.count("crash_images_recovered", 1)
		if torn >= 0 {
			c.count("torn_images", 1)
		}
		info := crashInfo{p: p, torn: torn, keys: j.keys, probes: j.probes}
		info.allowedFn = func(k Key) ([][]byte, bool) {
			a := allowed[k.Name]
			if a == nil {
				return nil, true
			}
			return a.vals, a.absentOK
		}
		if p < len(j.log) {
			info.next = &j.log[p]
		}
		if p > 0 {
			info.prev = &j.log[p-1]
		}
		v := recoverC03(sc, img, info, c)
		if v == nil || v.Oracle != "crash" {
			return
		}
		// classification from the trace and from the image, not from the
		// outcome: trigger = which kinds of calls overlapped a flush that had
		// begun before the crash; culprit = what the format reader finds
		// inconsistent in the image
		fl := j.inFlightAt(p)
		var names []string
		for _, r := range fl {
			names = append(names, fmt.Sprintf("T%d %s", r.Thread, r.Op))
		}
		began := func(r callRec) bool { return r.Call != 0 && r.LogCall <= p }
		overlaps := func(a, b callRec) bool {
			return (!b.Returned || a.Call < b.Ret) && (!a.Returned || b.Call < a.Ret)
		}
		flushUpd, flushGC := false, false
		for _, f := range j.recs {
			if f.Op.Kind != OpFlush || !began(f) {
				continue
			}
			for _, r := range j.recs {
				if !began(r) || !overlaps(f, r) {
					continue
				}
				switch r.Op.Kind {
				case OpPut, OpRemove:
					flushUpd = true
				case OpPriGC:
					flushGC = true
				}
			}
		}
		var trig []string
		if flushUpd {
			trig = append(trig, "flush-overlaps-update")
		}
		if flushGC {
			trig = append(trig, "flush-overlaps-primary-gc")
		}
		if len(trig) == 0 {
			trig = append(trig, "no-flush-overlap")
		}
		orig := v.Trigger + "/" + v.Culprit
		v.Trigger = strings.Join(trig, "+")
		v.Culprit = imageClass(img, j.cfg)
		if orig != "/" {
			v.Detail = "[" + orig + "] " + v.Detail
		}
		where := fmt.Sprintf("crash before mutation %d/%d of the concurrent execution", p, len(j.log))
		if torn >= 0 {
			where = fmt.Sprintf("mutation %d/%d of the concurrent execution torn after %d of %d bytes", p, len(j.log), torn, len(j.log[p].Data))
		}
		if info.prev != nil {
			where += "; last applied: " + info.prev.String()
		}
		if info.next != nil {
			where += "; next: " + info.next.String()
		}
		where += fmt.Sprintf("; in flight: %v; allowed: %s", names, allowedSig(allowed))
		v.Detail = where + " => " + v.Detail
		v.crashAt, v.crashTorn = p, torn
		// one report per fingerprint and execution
		fp := v.Symptom + "|" + v.Culprit + "|" + v.Trigger
		if !fps[fp] {
			fps[fp] = true
			found = append(found, v)
		}
	}
	if e.crashOnly != nil {
		check(e.crashOnly.CrashAt, e.crashOnly.Torn)
		return found
	}
	for p := 0; p <= len(j.log); p++ {
		if c.expired() {
			break
		}
		check(p, -1)
		if p < len(j.log) && j.log[p].Kind == vos.MWrite {
			pts, capped := tornPoints(len(j.log[p].Data))
			if capped {
				c.count("torn_writes_with_capped_prefix_set", 1)
			}
			for _, t := range pts {
				check(p, t)
			}
		}
	}
	return found
}

// imageClass names what is inconsistent in a crash image, by the independent
// format reader (a state predicate of the image, not of what reads return):
// the fingerprint's culprit for violations of the concurrent crash part.
func imageClass(img vos.Image, cfg Config) string {
	v := loadFsck(vos.FromImage(img), cfg)
	if !v.hasIH {
		return "image:no-index-header"
	}
	beyondEnd := func(off uint64) bool {
		if pr, _ := v.findPrimary(off); pr != nil {
			return false
		}
		if cfg.Primary == "cid" {
			return int64(off) >= v.priSize[0]
		}
		if !v.hasPH || v.ph.MaxFileSize == 0 {
			return false
		}
		file := uint32(off / uint64(v.ph.MaxFileSize))
		var last uint32
		for n := range v.priRecs {
			if n > last {
				last = n
			}
		}
		if file > last {
			return true
		}
		local := int64(off - uint64(file)*uint64(v.ph.MaxFileSize))
		return file == last && local >= v.priSize[last]
	}
	freeSet := map[uint64]bool{}
	for _, e := range append(append([]idxEntry{}, v.free...), v.freeGC...) {
		freeSet[e.Off] = true
	}
	dangling, freedLive, deletedLive, freeUnwritten, other := false, false, false, false, false
	for b, pos := range v.rescanTable() {
		if pos == 0 {
			continue
		}
		rec, _ := v.resolveBucket(pos)
		if rec == nil || rec.Deleted || rec.BadList || rec.Bucket != uint32(b) {
			other = true
			continue
		}
		for _, e := range rec.Entries {
			if pr, _ := v.findPrimary(e.Off); pr == nil {
				if beyondEnd(e.Off) {
					dangling = true
				} else {
					other = true
				}
			} else if pr.Deleted {
				deletedLive = true
			}
			if freeSet[e.Off] {
				freedLive = true
			}
		}
	}
	for off := range freeSet {
		if beyondEnd(off) {
			freeUnwritten = true
		}
	}
	switch {
	case dangling:
		return "image:index-entry-names-unwritten-primary-record"
	case freedLive:
		return "image:freelist-names-live-location"
	case deletedLive:
		return "image:index-entry-names-deleted-primary-record"
	case freeUnwritten:
		return "image:freelist-names-unwritten-primary-record"
	case other:
		return "image:other-inconsistency"
	}
	return "image:consistent"
}
