package harness

import (
	"crypto/sha256"
	"encoding/binary"
	"encoding/json"
	"fmt"
	"os"
	"sort"
	"time"
)

// Job is what the orchestrator asks one worker process to do.
type Job struct {
	Prop    string `json:"prop"`
	Tier    string `json:"tier"`
	Seed    int64  `json:"seed"`
	Shard   int    `json:"shard"`
	NShards int    `json:"nshards"`
	Out     string `json:"out"`              // result file (JSON)
	Replay  string `json:"replay,omitempty"` // replay file to re-execute instead of exploring
	Budget  int    `json:"budget_s,omitempty"`
}

// Result is what one worker reports.
type Result struct {
	Prop        string           `json:"prop"`
	Shard       int              `json:"shard"`
	Evaluations int64            `json:"evaluations"`
	Transitions int64            `json:"transitions"`
	States      []uint64         `json:"-"`
	StatesFile  string           `json:"states_file"`
	NStates     int              `json:"n_states"`
	Nontrivial  []string         `json:"nontrivial"` // distinct non-trivial case labels
	Samples     []any            `json:"samples"`
	Violations  []*Violation     `json:"violations"`
	ViolCounts  map[string]int64 `json:"viol_counts"` // by fingerprint
	Counters    map[string]int64 `json:"counters"`    // mechanism coverage etc.
	Exhaustive  bool             `json:"exhaustive"`
	CapsHit     []string         `json:"caps_hit"`
	Bound       string           `json:"bound"`
	Rule        string           `json:"rule"`
	Engine      string           `json:"engine"`
	Replays     int64            `json:"replays_validated"`
	WallS       float64          `json:"wall_s"`
	Notes       []string         `json:"notes"`
	InfraError  string           `json:"infra_error,omitempty"`
}

// Collector accumulates a worker's statistics.
type Collector struct {
	res      Result
	states   map[uint64]struct{}
	nontriv  map[string]struct{}
	violBest map[string]*Violation
	violLen  map[string]int
	start    time.Time
	deadline time.Time
	job      Job
	maxSamp  int
}

func newCollector(job Job) *Collector {
	c := &Collector{
		states:   make(map[uint64]struct{}),
		nontriv:  make(map[string]struct{}),
		violBest: make(map[string]*Violation),
		violLen:  make(map[string]int),
		start:    time.Now(),
		job:      job,
		maxSamp:  3,
	}
	c.res.Prop = job.Prop
	c.res.Shard = job.Shard
	c.res.Exhaustive = true
	c.res.ViolCounts = make(map[string]int64)
	c.res.Counters = make(map[string]int64)
	if job.Budget > 0 {
		c.deadline = c.start.Add(time.Duration(job.Budget) * time.Second)
	}
	return c
}

// expired reports whether the internal time budget is used up; the run then
// stops with exhaustive=false (never with an alarm).
func (c *Collector) expired() bool {
	if c.deadline.IsZero() {
		return false
	}
	if time.Now().After(c.deadline) {
		if c.res.Exhaustive {
			c.res.Exhaustive = false
			c.res.CapsHit = append(c.res.CapsHit, fmt.Sprintf("time budget %ds", c.job.Budget))
		}
		return true
	}
	return false
}

// withShare runs f with the deadline moved forward so that f gets at most the
// given share of the time that is left; checks with several parts use it so
// that the first part cannot use up the whole budget.
func (c *Collector) withShare(share float64, f func()) {
	if c.deadline.IsZero() {
		f()
		return
	}
	full := c.deadline
	left := time.Until(full)
	if left > 0 {
		c.deadline = time.Now().Add(time.Duration(float64(left) * share))
	}
	f()
	c.deadline = full
}

func (c *Collector) state(d [32]byte) {
	c.states[binary.LittleEndian.Uint64(d[:8])] = struct{}{}
}

func (c *Collector) stateKey(s string) {
	d := sha256.Sum256([]byte(s))
	c.state(d)
}

func (c *Collector) nontrivial(label string) { c.nontriv[label] = struct{}{} }

func (c *Collector) count(name string, n int64) { c.res.Counters[name] += n }

func (c *Collector) sample(s any) {
	if len(c.res.Samples) < c.maxSamp {
		c.res.Samples = append(c.res.Samples, s)
	}
}

func (v *Violation) fingerprint() string {
	return v.Property + "|" + v.Symptom + "|" + v.Culprit + "|" + v.Trigger
}

// violation records v, keeping per fingerprint the smallest instance (size is
// the caller's measure: history length, preemptions, crash index ...).
func (c *Collector) violation(v *Violation, size int) {
	fp := v.fingerprint()
	c.res.ViolCounts[fp]++
	if best, ok := c.violBest[fp]; !ok || size < c.violLen[fp] || (size == c.violLen[fp] && len(v.History) < len(best.History)) {
		c.violBest[fp] = v
		c.violLen[fp] = size
	}
}

func (c *Collector) finish() error {
	c.res.WallS = time.Since(c.start).Seconds()
	for s := range c.states {
		c.res.States = append(c.res.States, s)
	}
	c.res.NStates = len(c.res.States)
	for l := range c.nontriv {
		c.res.Nontrivial = append(c.res.Nontrivial, l)
	}
	sort.Strings(c.res.Nontrivial)
	fps := make([]string, 0, len(c.violBest))
	for fp := range c.violBest {
		fps = append(fps, fp)
	}
	sort.Strings(fps)
	for _, fp := range fps {
		c.res.Violations = append(c.res.Violations, c.violBest[fp])
	}
	if c.job.Out == "" {
		data, _ := json.MarshalIndent(c.res, "", " ")
		fmt.Println(string(data))
		return nil
	}
	c.res.StatesFile = c.job.Out + ".states"
	buf := make([]byte, 8*len(c.res.States))
	for i, s := range c.res.States {
		binary.LittleEndian.PutUint64(buf[8*i:], s)
	}
	if err := os.WriteFile(c.res.StatesFile, buf, 0o644); err != nil {
		return err
	}
	data, err := json.Marshal(c.res)
	if err != nil {
		return err
	}
	return os.WriteFile(c.job.Out, data, 0o644)
}
