package harness

import (
	"io"
	"context"
	"github.com/ipld/go-storethehash/store/types"
	"errors"
	"fmt"
	"github.com/ipld/go-storethehash/store"
	"github.com/ipld/go-storethehash/verifshim/vos"
	"os"
	"regexp"
	"runtime"
	"sort"
	"strings"
	"testing"
	"testing/synctest"
	"time"

	"github.com/anishathalye/porcupine"
)

// ---- recorded concurrent history ----

type callRec struct {
	// LocAfter: where the index says the key lives right after an update
	// returned (recorded only in ledger scenarios, by the updating thread).
	LocAfter    types.Block
	HasLocAfter bool
	Thread      int
	Op       Op
	Key      string // key name
	Call     int
	Ret      int
	Found    bool
	Val      string
	Size     int
	Removed  bool
	Err      string
	Returned bool
	// LogCall / LogRet: length of the file-system mutation log when the call
	// was invoked / returned (crash scenarios)
	LogCall int
	LogRet  int
}

func (r callRec) String() string {
	switch r.Op.Kind {
	case OpPut:
		return fmt.Sprintf("T%d %s -> err=%q", r.Thread, r.Op, r.Err)
	case OpRemove:
		return fmt.Sprintf("T%d %s -> %v err=%q", r.Thread, r.Op, r.Removed, r.Err)
	case OpGet:
		return fmt.Sprintf("T%d %s -> (%q,%v) err=%q", r.Thread, r.Op, r.Val, r.Found, r.Err)
	case OpHas:
		return fmt.Sprintf("T%d %s -> %v err=%q", r.Thread, r.Op, r.Found, r.Err)
	case OpGetSize:
		return fmt.Sprintf("T%d %s -> (%d,%v) err=%q", r.Thread, r.Op, r.Size, r.Found, r.Err)
	}
	return fmt.Sprintf("T%d %s -> err=%q", r.Thread, r.Op, r.Err)
}

// doCall performs op on the store without consulting the model.
func (w *World) doCall(op Op, rec *callRec) {
	defer func() {
		if r := recover(); r != nil {
			rec.Err = fmt.Sprintf("panic: %v", r)
		}
	}()
	switch op.Kind {
	case OpPut:
		k := w.Keys[op.K]
		rec.Key = k.Name
		if err := w.S.Put(k.Raw, values[op.V]); err != nil {
			rec.Err = err.Error()
		}
	case OpRemove:
		k := w.Keys[op.K]
		rec.Key = k.Name
		ok, err := w.S.Remove(k.Raw)
		rec.Removed = ok
		if err != nil {
			rec.Err = err.Error()
		}
	case OpGet:
		k := w.Keys[op.K]
		rec.Key = k.Name
		v, found, err := w.S.Get(k.Raw)
		rec.Val, rec.Found = string(v), found
		if err != nil {
			rec.Err = err.Error()
		}
	case OpHas:
		k := w.Keys[op.K]
		rec.Key = k.Name
		found, err := w.S.Has(k.Raw)
		rec.Found = found
		if err != nil {
			rec.Err = err.Error()
		}
	case OpGetSize:
		k := w.Keys[op.K]
		rec.Key = k.Name
		sz, found, err := w.S.GetSize(k.Raw)
		rec.Size, rec.Found = int(sz), found
		if err != nil {
			rec.Err = err.Error()
		}
	case OpFlush:
		if err := w.S.Flush(); err != nil {
			rec.Err = err.Error()
		}
	case OpIterate:
		it := w.S.NewIterator()
		for n := 0; n < 1000; n++ {
			if _, _, err := it.Next(); err != nil {
				if err != io.EOF {
					rec.Err = err.Error()
				}
				break
			}
		}
	case OpIdxGC:
		_, _, err := w.gcIndex(context.Background(), op.B)
		if err != nil {
			rec.Err = err.Error()
		}
	case OpPriGC:
		if mp := w.mh(); mp != nil {
			_, err := w.gcPrimary(mp, context.Background(), int64(op.A))
			if err != nil {
				rec.Err = err.Error()
			}
		}
	}
}

// ---- linearizability (porcupine) ----

type linIn struct {
	kind OpKind
	key  string
	val  string
	imm  bool
}

type linOut struct {
	found   bool
	val     string
	size    int
	removed bool
	exists  bool // Put returned key-exists
}

type linState struct {
	present bool
	val     string
}

var linModel = porcupine.Model{
	Partition: func(history []porcupine.Operation) [][]porcupine.Operation {
		byKey := map[string][]porcupine.Operation{}
		var keys []string
		for _, op := range history {
			k := op.Input.(linIn).key
			if _, ok := byKey[k]; !ok {
				keys = append(keys, k)
			}
			byKey[k] = append(byKey[k], op)
		}
		sort.Strings(keys)
		out := make([][]porcupine.Operation, 0, len(keys))
		for _, k := range keys {
			out = append(out, byKey[k])
		}
		return out
	},
	Init: func() interface{} { return linState{} },
	Step: func(state, input, output interface{}) (bool, interface{}) {
		st := state.(linState)
		in := input.(linIn)
		out := output.(linOut)
		switch in.kind {
		case OpPut:
			if in.imm && st.present {
				return out.exists, st
			}
			if out.exists {
				return false, st
			}
			return true, linState{true, in.val}
		case OpRemove:
			return out.removed == st.present, linState{}
		case OpGet:
			return out.found == st.present && (!st.present || out.val == st.val), st
		case OpHas:
			return out.found == st.present, st
		case OpGetSize:
			return out.found == st.present && (!st.present || out.size == len(st.val)), st
		}
		return true, st
	},
	Equal: func(a, b interface{}) bool { return a.(linState) == b.(linState) },
}

func isMapOp(k OpKind) bool {
	return k == OpPut || k == OpRemove || k == OpGet || k == OpHas || k == OpGetSize
}

// checkLinearizable returns "" or the key whose sub-history has no
// linearization.
func checkLinearizable(init map[string]string, recs []callRec, imm bool) bool {
	var ops []porcupine.Operation
	t := int64(-1000)
	for k, v := range init {
		ops = append(ops, porcupine.Operation{ClientId: 0, Input: linIn{kind: OpPut, key: k, val: v}, Call: t, Output: linOut{}, Return: t + 1})
		t += 2
	}
	for _, r := range recs {
		if !isMapOp(r.Op.Kind) || !r.Returned {
			continue
		}
		in := linIn{kind: r.Op.Kind, key: r.Key, imm: imm}
		if r.Op.Kind == OpPut {
			in.val = string(values[r.Op.V])
		}
		out := linOut{found: r.Found, val: r.Val, size: r.Size, removed: r.Removed, exists: r.Err == "key exists"}
		ops = append(ops, porcupine.Operation{ClientId: r.Thread, Input: in, Call: int64(r.Call), Output: out, Return: int64(r.Ret)})
	}
	return porcupine.CheckOperations(linModel, ops)
}

// ---- the standard store execution for engine A ----

type storeExecOpts struct {
	startFlusher bool
	final        func(w *World, s *Sched, recs []callRec) *Violation
}

// execStore builds the initial state sequentially, runs the thread programs
// under the scheduler, lets everything quiesce, and applies the oracles.
func execStore(t *testing.T, sc *ConcScenario, choose chooser) *execResult {
	res := &execResult{}
	w, err := newWorldWith(sc.Cfg, func(w *World) {
		if d, ok := sc.Extra["sync"].(time.Duration); ok {
			w.Sync = d
		}
		if d, ok := sc.Extra["gcint"].(time.Duration); ok {
			w.GCInt = d
		}
		if b, ok := sc.Extra["burst"].(int); ok {
			w.Burst = uint64(b)
		}
	})
	if err != nil {
		res.viol = viol("open-error", "open: %v", err)
		return res
	}
	if sc.Extra["logSites"] == true {
		w.FS.StartLog(true)
		w.ledger = &Ledger{}
	}
	for _, op := range sc.Init {
		if v := w.Step(op); v != nil {
			// the sequential set-up itself misbehaves: not this engine's business
			w.Close()
			res.outcome = "init-failed"
			return res
		}
	}
	init := map[string]string{}
	for _, k := range w.Keys {
		if v, ok := w.Model[string(k.Digest)]; ok {
			init[k.Name] = string(v)
		}
	}
	if r, ok := sc.Extra["flushRate"].(float64); ok {
		w.S.VerifSetFlushRate(r)
	}
	if sc.Extra["flusher"] == true {
		w.S.Start()
	}
	if w.ledger != nil {
		w.initLocs = w.locateAll()
	}
	var cj *crashJob
	if sc.Extra["crash"] == true {
		// everything the initial state holds is flushed; the crash points of
		// the concurrent phase start here
		if err := w.S.Flush(); err != nil {
			w.Close()
			res.outcome = "init-failed"
			return res
		}
		cj = &crashJob{cfg: sc.Cfg, init: copyModel(w.Model), keys: w.Keys, probes: w.Probes}
		w.FS.StartLog(true)
		cj.base = w.FS.Base()
	}
	s := newSched(sc.Ticks, time.Duration(sc.Tick))
	s.chanPoints = sc.Extra["chanPoints"] == true
	recs := make([]callRec, 0, 8)
	if pre, ok := sc.Extra["pre"].([]Op); ok {
		// acknowledged but unflushed calls that precede the threads (so that a
		// Flush thread has something to commit): part of the history, not of
		// the initial state
		for _, op := range pre {
			r := callRec{Thread: 0, Op: op}
			s.clock++
			r.Call = s.clock
			r.LogCall = w.FS.LogLen()
			w.doCall(op, &r)
			s.clock++
			r.Ret = s.clock
			r.LogRet = w.FS.LogLen()
			r.Returned = true
			recs = append(recs, r)
		}
	}
	idxOf := make([][]int, len(sc.Threads))
	for ti, prog := range sc.Threads {
		for _, op := range prog {
			idxOf[ti] = append(idxOf[ti], len(recs))
			recs = append(recs, callRec{Thread: ti + 1, Op: op})
		}
	}
	for ti, prog := range sc.Threads {
		ti, prog := ti, prog
		s.spawn(fmt.Sprintf("T%d", ti+1), func() {
			for oi, op := range prog {
				r := &recs[idxOf[ti][oi]]
				s.clock++
				r.Call = s.clock
				r.LogCall = w.FS.LogLen()
				w.doCall(op, r)
				s.clock++
				r.Ret = s.clock
				r.LogRet = w.FS.LogLen()
				r.Returned = true
				if w.ledger != nil && op.Kind == OpPut && r.Err == "" {
					if blk, found, err := w.idx().Get(w.Keys[op.K].Digest); err == nil && found {
						r.LocAfter, r.HasLocAfter = blk, true
					}
				}
			}
		})
	}
	s.run(choose)
	// only decisions of the main phase are branch points; what follows (fair
	// continuation, quiescent finals) is deterministic given them
	res.trace = schedTrace{decisions: append([]decision{}, s.trace.decisions...), steps: append([]string{}, s.trace.steps...)}
	res.aborted = s.aborted
	res.conflicts = s.conflicts
	if s.aborted == "deadlock" && sc.Extra["fair"] == true {
		// Fair continuation: flushes keep succeeding (the ticker keeps
		// firing); a writer that is still waiting after three more ticks with
		// nothing else to do waits for ever.
		s.aborted = ""
		fairTicks := 3
		if n, ok := sc.Extra["fairTicks"].(int); ok {
			fairTicks = n
		}
		s.ticks = fairTicks
		s.run(func(d *decision, idx int) int { return 0 })
		res.steps = len(s.trace.decisions)
		res.aborted = s.aborted
		if s.aborted == "deadlock" {
			blocked := s.harnessBlocked()
			res.viol = viol("stuck-writer", "after the schedule and %d further fair tick(s) %v still wait(s) although every flush succeeded: %s", fairTicks, blocked, s.describe())
			res.outcome = "stuck-writer"
			// clean up so that the bubble can end: create work and flush
			s.releaseAll()
			k := w.Probes[0]
			for i := 0; i < 8 && len(s.harnessBlocked()) > 0; i++ {
				synctest.Wait()
				w.S.Primary().Put(k.Raw, []byte("cleanup"))
				w.S.Flush()
				synctest.Wait()
			}
			if len(s.harnessBlocked()) > 0 {
				abortProcessAfter(res)
				return res
			}
			func() {
				defer func() { recover() }()
				w.Close()
			}()
			classifyConc(sc, recs, res.viol, init, nil)
			return res
		}
	}
	if s.aborted != "" {
		if strings.HasPrefix(s.aborted, "replay-divergence") {
			fmt.Fprintf(os.Stderr, "DIVERGENCE %s: %s\n  steps: %v\n", sc.Name, s.aborted, s.trace.steps)
			abortProcessAfter(res)
			return res
		}
		res.viol = viol("deadlock", "%s: %s", s.aborted, s.describe())
		res.outcome = "aborted:" + s.aborted
		abortProcessAfter(res)
		return res
	}
	s.releaseAll()
	if leaked := s.leakedLocks(); len(leaked) > 0 {
		res.viol = viol("deadlock", "a call returned while still holding %v: every later call that needs the lock blocks for ever", leaked)
		res.outcome = "lock-leaked"
		classifyConc(sc, recs, res.viol, init, nil)
		abortProcessAfter(res)
		return res
	}
	if cj != nil {
		cj.log = append([]vos.Mut(nil), w.FS.Log()...)
		cj.recs = append([]callRec(nil), recs...)
		res.crash = cj
	}
	if sc.Extra["fsckOnly"] == true {
		// C07 under engine A: only the files' mutual consistency at
		// quiescence is this run's business
		res.outcome = "fsck"
		if err := w.S.Flush(); err == nil {
			if v := w.FsckOpen(); v != nil {
				res.viol = v
			} else if err := w.Close(); err == nil {
				if v := w.FsckClosed(); v != nil {
					res.viol = v
				}
			}
		}
		func() {
			defer func() { recover() }()
			w.Close()
		}()
		return res
	}
	// oracles
	var sb strings.Builder
	for _, r := range recs {
		sb.WriteString(r.String())
		sb.WriteString("; ")
	}
	for _, r := range recs {
		if r.Err != "" && !(r.Err == "key exists" && sc.Cfg.Immutable && r.Op.Kind == OpPut) {
			if isMapOp(r.Op.Kind) || r.Op.Kind == OpFlush || strings.HasPrefix(r.Err, "panic") {
				sym := "call-error"
				if strings.HasPrefix(r.Err, "panic") {
					sym = "panic"
				}
				res.viol = viol(sym, "%s", r.String())
				res.viol.Culprit = "err:" + r.Err
				rc := r
				res.viol.failRec = &rc
				break
			}
		}
	}
	// quiescent final reads, appended to the history
	step := s.clock + 10
	if err := w.S.Flush(); err != nil && res.viol == nil {
		res.viol = viol("call-error", "final Flush: %v", err)
	}
	finals := make([]callRec, 0, 3*len(w.Keys))
	for ki := range w.Keys {
		for _, kind := range []OpKind{OpGet, OpHas, OpGetSize} {
			r := callRec{Thread: 0, Op: Op{Kind: kind, K: ki}, Call: step, Ret: step, Returned: true}
			w.doCall(r.Op, &r)
			step++
			r.Ret = step
			step++
			finals = append(finals, r)
			if r.Err != "" && res.viol == nil {
				res.viol = viol("call-error", "final %s", r.String())
				res.viol.Culprit = "err:" + r.Err
			}
		}
		sb.WriteString(finals[len(finals)-3].String())
		sb.WriteString("; ")
	}
	res.outcome = sb.String()
	all := append(append([]callRec{}, recs...), finals...)
	if res.viol == nil {
		nl := viol("not-linearizable", "no linearization of: %s", sb.String())
		classifyConc(sc, recs, nl, init, finals)
		res.pending = append(res.pending, pendingLin{init, all, sc.Cfg.Immutable, nl})
	}
	if fn, ok := sc.Extra["final"].(func(w *World, s *Sched, recs []callRec, res *execResult)); ok {
		fn(w, s, recs, res)
	}
	if res.viol != nil {
		classifyConc(sc, recs, res.viol, init, finals)
	}
	func() {
		defer func() { recover() }()
		w.Close()
	}()
	return res
}

// abortProcessAfter is set by the worker main: an execution that cannot be
// completed (deadlock, divergence) leaves goroutines parked for ever, so the
// bubble can never end; the worker writes its results and exits.
var abortProcessAfter = func(res *execResult) {}

// overlap reports whether two calls overlapped in (logical) time.
func overlap(a, b callRec) bool {
	return a.Call <= b.Ret && b.Call <= a.Ret
}

var digitsRe = regexp.MustCompile(`[0-9]+`)

// classifyConc evaluates trace predicates for known-finding matching.
func classifyConc(sc *ConcScenario, recs []callRec, v *Violation, init map[string]string, finals []callRec) {
	isUpd := func(k OpKind) bool { return k == OpPut || k == OpRemove }
	var trig []string
	sameKey, prefixPair, idxGCvsCall, priGCvsUpd := false, false, false, false
	sameKeyRemove, removedKey := false, ""
	callErr := v.Symptom == "call-error" || v.Symptom == "panic"
	involvesFailing := func(a, b callRec) bool {
		if !callErr {
			return true
		}
		if v.failRec == nil {
			return false // the failing call is a quiescent final read: it overlaps nothing
		}
		f := v.failRec
		return (a.Thread == f.Thread && a.Call == f.Call) || (b.Thread == f.Thread && b.Call == f.Call)
	}
	for i := range recs {
		for j := i + 1; j < len(recs); j++ {
			a, b := recs[i], recs[j]
			if a.Thread == b.Thread || !overlap(a, b) || !involvesFailing(a, b) {
				continue
			}
			for _, p := range [][2]callRec{{a, b}, {b, a}} {
				if p[0].Op.Kind == OpIdxGC && isMapOp(p[1].Op.Kind) {
					idxGCvsCall = true
				}
				if p[0].Op.Kind == OpPriGC && isUpd(p[1].Op.Kind) {
					priGCvsUpd = true
				}
			}
			if !isUpd(a.Op.Kind) || !isUpd(b.Op.Kind) {
				continue
			}
			if a.Key == b.Key {
				sameKey = true
				if a.Op.Kind == OpRemove || b.Op.Kind == OpRemove {
					sameKeyRemove = true
					removedKey = a.Key
				}
			} else if a.Key != "K4" && b.Key != "K4" && (a.Op.Kind == OpRemove || b.Op.Kind == OpRemove) {
				// a Remove overlapping an update of a different key of the
				// same bucket (Index.Remove/Update match by stored prefix)
				prefixPair = true
			}
		}
	}
	if sameKey {
		trig = append(trig, "concurrent-updates-same-key")
	}
	if sc.Cfg.Immutable && v.Symptom == "not-linearizable" {
		// two overlapping Puts of one key that the store did not hold both
		// returned nil: in an immutable store the second must be refused
		for i := range recs {
			for j := i + 1; j < len(recs); j++ {
				a, b := recs[i], recs[j]
				if a.Thread == b.Thread || !overlap(a, b) || a.Op.Kind != OpPut || b.Op.Kind != OpPut || a.Key != b.Key {
					continue
				}
				if _, present := init[a.Key]; present {
					continue
				}
				if a.Returned && b.Returned && a.Err == "" && b.Err == "" && a.Op.V != b.Op.V {
					trig = append(trig, "both-puts-of-absent-key-succeed-in-immutable-store")
					i = len(recs)
					break
				}
			}
		}
	}
	if prefixPair {
		trig = append(trig, "remove-concurrent-with-update-in-same-bucket")
	}
	if sameKeyRemove && v.Symptom == "not-linearizable" {
		// an update of a key raced with a Remove of the same key, and some
		// call put a different key of the same bucket: the slower update
		// matches that key's entry by stored prefix (Index.Update/Remove)
		for _, r := range recs {
			if r.Op.Kind == OpPut && r.Key != removedKey && r.Key != "K4" && removedKey != "K4" && r.Key != "K5" {
				trig = append(trig, "stale-update-vs-new-key-in-same-bucket")
				break
			}
		}
	}
	if idxGCvsCall && v.Symptom == "call-error" {
		trig = append(trig, "call-overlaps-index-gc")
	}
	if priGCvsUpd && v.Symptom == "not-linearizable" {
		// did a key fall back to the value it had before the concurrent phase
		// although an acknowledged update changed it?
		reverted := false
		for _, f := range finals {
			if f.Op.Kind != OpGet {
				continue
			}
			iv, ip := init[f.Key]
			if f.Found != ip || (ip && f.Val != iv) {
				continue
			}
			for _, r := range recs {
				if r.Key == f.Key && r.Returned && r.Err == "" && ((r.Op.Kind == OpPut && (!ip || string(values[r.Op.V]) != iv)) || (r.Op.Kind == OpRemove && r.Removed)) {
					reverted = true
				}
			}
		}
		if reverted {
			trig = append(trig, "update-overlaps-primary-gc+key-reverted-to-pre-update-value")
		}
	}
	if v.Symptom == "not-linearizable" {
		// a read that came back empty while it overlapped both a primary GC
		// cycle and an update of the same key by another thread
		isRead := func(k OpKind) bool { return k == OpGet || k == OpHas || k == OpGetSize }
		for _, r := range recs {
			if !isRead(r.Op.Kind) || r.Found {
				continue
			}
			gc, upd := false, false
			for _, o := range recs {
				if o.Thread == r.Thread || !overlap(r, o) {
					continue
				}
				if o.Op.Kind == OpPriGC {
					gc = true
				}
				if isUpd(o.Op.Kind) && o.Key == r.Key {
					upd = true
				}
			}
			if gc && upd {
				trig = append(trig, "empty-read-overlaps-primary-gc-and-update-of-same-key")
				break
			}
		}
	}
	if len(trig) > 0 {
		v.Trigger = strings.Join(trig, "+")
	}
	if strings.HasPrefix(v.Culprit, "err:") {
		v.Culprit = digitsRe.ReplaceAllString(v.Culprit, "N")
	}
}

func isErr(err error, target error) bool { return errors.Is(err, target) }

// ---- C05 scenarios ----

func P(k, v int) Op { return Op{Kind: OpPut, K: k, V: v} }
func R(k int) Op    { return Op{Kind: OpRemove, K: k} }
func G(k int) Op    { return Op{Kind: OpGet, K: k} }
func H(k int) Op    { return Op{Kind: OpHas, K: k} }
func Z(k int) Op    { return Op{Kind: OpGetSize, K: k} }

var opF = Op{Kind: OpFlush}

type namedInit struct {
	name string
	ops  []Op
}

func c05Inits() []namedInit {
	return []namedInit{
		{"I0-empty", nil},
		{"I1-K0-flushed", []Op{P(0, 1), opF}},
		{"I2-K0-unflushed", []Op{P(0, 1)}},
		{"I3-K0K1-flushed", []Op{P(0, 1), P(1, 1), opF}},
		{"I4-K1-only", []Op{P(1, 1), opF}},
		{"I5-K0K1-flushed-twice", []Op{P(0, 1), P(1, 1), opF, P(4, 1), opF}},
	}
}

func progString(ts [][]Op) string {
	parts := make([]string, len(ts))
	for i, t := range ts {
		parts[i] = fmt.Sprintf("T%d[%s]", i+1, opsString(t))
	}
	return strings.Join(parts, " || ")
}

func c05Scenarios(tier string) []*ConcScenario {
	pairs := [][][]Op{
		{{P(0, 2)}, {P(0, 3)}},
		{{P(0, 2)}, {R(0)}},
		{{P(0, 2)}, {P(1, 2)}},
		{{R(0)}, {P(1, 2)}},
		{{R(0)}, {R(1)}},
		{{R(0)}, {R(0), P(1, 2)}},
		{{P(0, 2)}, {G(0)}},
		{{P(1, 2)}, {G(0), H(0)}},
		{{R(0)}, {G(0)}},
		{{R(1)}, {Z(0)}},
		{{P(0, 2), G(0)}, {G(0)}},
	}
	inits := c05Inits()
	cfgs := []Config{cfg("mh", false, 8, 48, 48)}
	bound := 2
	if tier != "quick" {
		cfgs = append(cfgs, cfg("mh", false, 8, 1, 1), cfg("cid", false, 8, 48, bigFile), cfg("mh", true, 8, 48, 48))
		pairs = append(pairs,
			[][]Op{{P(0, 2)}, {P(0, 3)}, {G(0)}},
			[][]Op{{P(0, 2)}, {R(0)}, {P(1, 2)}},
			[][]Op{{R(0), P(0, 2)}, {R(1), P(1, 2)}},
		)
	}
	var scs []*ConcScenario
	if tier == "quick" {
		// the other primary, immutable mode and one-record files on a subset
		cfgs = append(cfgs, cfg("cid", false, 8, 48, bigFile), cfg("mh", true, 8, 48, 48), cfg("mh", false, 8, 1, 1))
	}
	for ci, c := range cfgs {
		for ii, in := range inits {
			for pi, pr := range pairs {
				if tier == "quick" && ci > 0 && (ii%2 != ci%2 || pi%3 != ci%3) && !(c.Immutable && pi == 0 && ii%2 == ci%2) {
					// (two Puts of one key are always run in immutable mode:
					// the second must be refused)
					continue
				}
				for _, withFlush := range []bool{false, true} {
					ths := append([][]Op{}, pr...)
					if withFlush {
						ths = append(ths, []Op{opF})
					}
					sc := &ConcScenario{Prop: "C05", Cfg: c, Init: in.ops, Threads: ths, Bound: bound, Exec: execStore}
					if withFlush {
						sc.Extra = map[string]any{"final": reopenFinal}
					}
					sc.Name = fmt.Sprintf("c05/%s/%s/%s", c.String(), in.name, progString(ths))
					sc.Desc = fmt.Sprintf("init %s [%s]; %s", in.name, opsString(in.ops), progString(ths))
					scs = append(scs, sc)
				}
			}
		}
	}
	// Two overlapping flushes (an explicit Flush next to the periodic one)
	// with callers in between: the per-component flush locks serialise each
	// component, not the commit as a whole.
	for _, in := range []namedInit{inits[2], {"I6-K0K1-flushed-K4-unflushed", []Op{P(0, 1), P(1, 1), opF, P(4, 1)}}} {
		for _, cl := range [][]Op{{P(0, 2)}, {P(0, 2), P(1, 2)}, {R(0), P(1, 2)}} {
			c := cfgs[0]
			ths := [][]Op{cl, {opF}, {opF}}
			// (what the bucket table on disk says only shows after a reopen:
			// the write pools answer until then)
			sc := &ConcScenario{Prop: "C05", Cfg: c, Init: in.ops, Threads: ths, Bound: bound, Exec: execStore,
				Extra: map[string]any{"final": reopenFinal}}
			sc.Name = fmt.Sprintf("c05/%s/%s/%s", c.String(), in.name, progString(ths))
			sc.Desc = fmt.Sprintf("init %s [%s]; %s", in.name, opsString(in.ops), progString(ths))
			scs = append(scs, sc)
		}
	}
	return scs
}

// ---- C06: collectors as threads ----

// reopenFinal: after quiescence, Flush + Close + reopen (rescan) must read the
// same as the quiescent final reads did.
func reopenFinal(w *World, s *Sched, recs []callRec, res *execResult) {
	if res.viol != nil {
		return
	}
	before := observeStore(w)
	if err := w.S.Flush(); err != nil {
		res.viol = viol("call-error", "Flush after quiescence: %v", err)
		res.viol.Culprit = "err:" + err.Error()
		return
	}
	if err := w.Close(); err != nil {
		res.viol = viol("call-error", "Close after quiescence: %v", err)
		return
	}
	// through the saved bucket table first (what the in-memory table said at
	// Close), then through a rescan of the index log
	for _, rescan := range []bool{false, true} {
		how := "Flush+Close+reopen"
		if rescan {
			if err := w.Close(); err != nil {
				res.viol = viol("call-error", "second Close after quiescence: %v", err)
				return
			}
			w.FS.RemoveRaw(idxPath + ".buckets")
			how = "Flush+Close+reopen (index rescan)"
		}
		if err := w.Open(); err != nil {
			res.viol = viol("open-error", "reopen after quiescence: %v", err)
			return
		}
		after := observeStore(w)
		for i := range before {
			if before[i] != after[i] {
				res.viol = viol("key-lost", "after %s a read changed: %s became %s", how, before[i], after[i])
				if strings.Contains(before[i], ":false:") {
					res.viol.Symptom = "key-resurrected"
				}
				return
			}
		}
	}
}

func c06Scenarios(tier string) []*ConcScenario {
	G1 := namedInit{"G1-overwrites", []Op{P(0, 1), opF, P(1, 1), opF, P(4, 1), opF, P(0, 2), opF, P(1, 2), opF}}
	G2 := namedInit{"G2-removes", []Op{P(0, 1), opF, P(1, 1), opF, P(4, 1), opF, R(0), opF, P(0, 2), opF}}
	G3 := namedInit{"G3-mixed-reopened", []Op{P(0, 1), P(1, 1), opF, P(0, 2), opF, R(1), opF, P(4, 1), opF, {Kind: OpReopen, A: 0}, P(1, 2), opF}}
	inits := []namedInit{G1, G2}
	gcs := [][]Op{
		{{Kind: OpIdxGC, B: true}},
		{{Kind: OpPriGC, A: 0}},
		{{Kind: OpPriGC, A: 85}},
	}
	callers := [][]Op{
		{G(0)},
		{G(1), Z(4)},
		{P(0, 3)},
		{R(1)},
		{P(0, 3), opF},
		{P(4, 3), opF, P(0, 3), opF},
		{P(0, 3), P(4, 3), opF},
	}
	cfgs := []Config{cfg("mh", false, 8, 1, 1)}
	bound := 2
	if tier != "quick" {
		inits = append(inits, G3)
		cfgs = append(cfgs, cfg("mh", false, 8, 48, 48), cfg("mh", false, 8, 1, 48))
		gcs = append(gcs, []Op{{Kind: OpIdxGC, B: false}}, []Op{{Kind: OpIdxGC, B: true}, {Kind: OpPriGC, A: 0}})
		callers = append(callers, []Op{H(1), G(0)}, []Op{R(0), P(0, 3)})
	}
	var scs []*ConcScenario
	// three threads: a reader, a flush that supersedes what the reader is
	// about to read, and the collector that reaps the superseded data
	G1u := namedInit{"G1-overwrites+unflushed", append(append([]Op{}, G1.ops...), P(0, 3), P(1, 3))}
	for _, c := range cfgs {
		for _, gc := range gcs {
			rds := [][]Op{{G(0)}}
			if tier != "quick" {
				rds = append(rds, []Op{Z(1)})
			}
			for _, rd := range rds {
				ths := [][]Op{gc, rd, {opF}}
				sc := &ConcScenario{Prop: "C06", Cfg: c, Init: G1u.ops, Threads: ths, Bound: bound, Exec: execStore,
					Extra: map[string]any{"final": reopenFinal}}
				sc.Name = fmt.Sprintf("c06/%s/%s/%s", c.String(), G1u.name, progString(ths))
				sc.Desc = fmt.Sprintf("init %s [%s]; %s", G1u.name, opsString(G1u.ops), progString(ths))
				scs = append(scs, sc)
			}
			// the reader's bucket is not in any pool: it holds a disk position
			ths := [][]Op{gc, {G(4)}, {P(4, 3), opF}}
			sc := &ConcScenario{Prop: "C06", Cfg: c, Init: G1.ops, Threads: ths, Bound: bound, Exec: execStore,
				Extra: map[string]any{"final": reopenFinal}}
			sc.Name = fmt.Sprintf("c06/%s/%s/%s", c.String(), G1.name, progString(ths))
			sc.Desc = fmt.Sprintf("init %s [%s]; %s", G1.name, opsString(G1.ops), progString(ths))
			scs = append(scs, sc)
		}
	}
	// a cycle that relocates two live records of different sizes out of one
	// low-use file while readers and a writer touch those keys
	{
		c := cfg("mh", false, 8, 48, 100)
		in := namedInit{"G4-low-use-two-live", []Op{P(0, 5), P(1, 1), P(3, 2), opF, P(0, 1), opF, P(4, 1), opF}}
		for _, cl := range [][]Op{{G(1), G(3)}, {P(1, 3), G(3)}} {
			ths := [][]Op{{{Kind: OpPriGC, A: 50}}, cl}
			sc := &ConcScenario{Prop: "C06", Cfg: c, Init: in.ops, Threads: ths, Bound: bound, Exec: execStore,
				Extra: map[string]any{"final": reopenFinal}}
			sc.Name = fmt.Sprintf("c06/%s/%s/%s", c.String(), in.name, progString(ths))
			sc.Desc = fmt.Sprintf("init %s [%s]; %s", in.name, opsString(in.ops), progString(ths))
			scs = append(scs, sc)
		}
	}
	// the file being appended to ends in a freed record, and the caller's Puts
	// during the cycle fill it and roll over inside the write pool (36-byte
	// limit = two 12-byte records + room for one more): what the collector
	// takes for "files that are complete" is decided while records for the
	// current file are still pending
	{
		c := cfg("mh", false, 8, 48, 36)
		in := namedInit{"G5-free-tail-in-current-file", []Op{P(0, 1), P(1, 1), opF, R(1), opF}}
		for _, cl := range [][]Op{{P(1, 2), P(3, 1)}, {P(1, 2), P(3, 1), opF}} {
			ths := [][]Op{{{Kind: OpPriGC, A: 0}}, cl}
			sc := &ConcScenario{Prop: "C06", Cfg: c, Init: in.ops, Threads: ths, Bound: bound, Exec: execStore,
				Extra: map[string]any{"final": reopenFinal}}
			sc.Name = fmt.Sprintf("c06/%s/%s/%s", c.String(), in.name, progString(ths))
			sc.Desc = fmt.Sprintf("init %s [%s]; %s", in.name, opsString(in.ops), progString(ths))
			scs = append(scs, sc)
		}
	}
	for _, c := range cfgs {
		for _, in := range inits {
			for _, gc := range gcs {
				for _, cl := range callers {
					ths := [][]Op{gc, cl}
					sc := &ConcScenario{Prop: "C06", Cfg: c, Init: in.ops, Threads: ths, Bound: bound, Exec: execStore,
						Extra: map[string]any{"final": reopenFinal}}
					sc.Name = fmt.Sprintf("c06/%s/%s/%s", c.String(), in.name, progString(ths))
					sc.Desc = fmt.Sprintf("init %s [%s]; %s", in.name, opsString(in.ops), progString(ths))
					scs = append(scs, sc)
				}
			}
		}
	}
	return scs
}

// ---- C12: back-pressure ----

func c12Scenarios(tier string) []*ConcScenario {
	c := cfg("mh", false, 8, bigFile, bigFile)
	type prog struct {
		name string
		init []Op
		ths  [][]Op
	}
	progs := []prog{
		{"single-writer", nil, [][]Op{{P(0, 1)}}},
		{"writer+remove", []Op{P(1, 1)}, [][]Op{{P(0, 1)}, {R(1)}}},
		{"writer+explicit-flush", nil, [][]Op{{P(0, 1)}, {opF}}},
		{"two-writers", nil, [][]Op{{P(0, 1)}, {P(4, 1)}}},
	}
	bound, ticks := 2, 2
	if tier != "quick" {
		bound, ticks = 3, 3
		progs = append(progs,
			prog{"two-writers+flush", nil, [][]Op{{P(0, 1)}, {P(1, 1)}, {opF}}},
			prog{"writer-twice", nil, [][]Op{{P(0, 1), P(0, 2)}}},
		)
	}
	var scs []*ConcScenario
	// Work as a writer measures it is inflated when keys share a bucket (the
	// index counts the whole re-encoded record list on every Put), so a flush
	// can write less than the writer measured. With the burst rate just below
	// the measured work of two same-bucket Puts the second Put waits for a
	// flush that writes less than the burst rate.
	if m := c12MeasuredWork(c, []Op{P(0, 1), P(1, 1)}); m > 1 {
		for _, selDesc := range []bool{false, true} {
			cc := c
			cc.SelDesc = selDesc
			ths := [][]Op{{P(0, 1), P(1, 1)}}
			// no tick at all: the flush the writer asks for is the only one, and
			// it completes after the wait began
			sc := &ConcScenario{Prop: "C12", Cfg: cc, Threads: ths, Bound: bound, Ticks: 0, Tick: int64(time.Second), Exec: execStore,
				Extra: map[string]any{"sync": time.Second, "burst": int(m - 1), "flushRate": 1.0, "flusher": true, "fair": true, "fairTicks": 0, "chanPoints": true}}
			sc.Name = fmt.Sprintf("c12/small-flush/seldesc=%v", selDesc)
			sc.Desc = fmt.Sprintf("real flusher goroutine (sync interval 1s, burst rate %d = measured work of the two Puts - 1, flush rate preset so that writers wait), no tick, select priority desc=%v; %s", m-1, selDesc, progString(ths))
			scs = append(scs, sc)
		}
	}
	for pi, p := range progs {
		for _, selDesc := range []bool{false, true} {
			if tier == "quick" && selDesc && pi == 2 {
				continue
			}
			cc := c
			cc.SelDesc = selDesc
			ticks := ticks
			if tier == "quick" && (pi >= 2 || (pi == 1 && !selDesc)) {
				// two ticks where they matter most: the single writer, and a
				// second caller's signal left in flushNow while a tick comes
				// due (descending select priority = ticker first)
				ticks = 1
			}
			sc := &ConcScenario{Prop: "C12", Cfg: cc, Init: p.init, Threads: p.ths, Bound: bound, Ticks: ticks, Tick: int64(time.Second), Exec: execStore,
				Extra: map[string]any{"sync": time.Second, "burst": 1, "flushRate": 1.0, "flusher": true, "fair": true, "fairTicks": 0, "chanPoints": true}}
			sc.Name = fmt.Sprintf("c12/%s/seldesc=%v", p.name, selDesc)
			sc.Desc = fmt.Sprintf("real flusher goroutine (sync interval 1s, burst rate 1, flush rate preset so that writers wait), %d ticks, select priority desc=%v; init [%s]; %s", ticks, selDesc, opsString(p.init), progString(p.ths))
			scs = append(scs, sc)
		}
	}
	return scs
}

// ---- C17: Close while background activity is in progress ----

// storeGoroutines returns the stacks of goroutines (other than the caller)
// that are executing code of the repository's packages.
func storeGoroutines() []string {
	buf := make([]byte, 1<<20)
	n := runtime.Stack(buf, true)
	var out []string
	for i, g := range strings.Split(string(buf[:n]), "\n\n") {
		if i == 0 {
			continue // the caller
		}
		if !strings.Contains(g, "github.com/ipld/go-storethehash/store") && !strings.Contains(g, "github.com/ipld/go-storethehash.") {
			continue
		}
		if strings.Contains(g, "verifharness.") {
			continue // a harness thread inside a call
		}
		lines := strings.Split(g, "\n")
		fn := ""
		for _, l := range lines[1:] {
			if len(l) > 0 && l[0] != '\t' && strings.Contains(l, "go-storethehash") {
				fn = l
				break
			}
		}
		if j := strings.LastIndex(fn, "/"); j >= 0 {
			fn = fn[j+1:]
		}
		if j := strings.Index(fn, "("); j > 0 && !strings.HasPrefix(fn[j:], "(*") {
			fn = fn[:j]
		}
		out = append(out, fn)
	}
	sort.Strings(out)
	return out
}

func execClose(t *testing.T, sc *ConcScenario, choose chooser) *execResult {
	res := &execResult{}
	w, err := newWorldWith(sc.Cfg, func(w *World) {
		w.Sync = time.Second
		w.GCInt = 10 * time.Second
		if b, ok := sc.Extra["burst"].(int); ok {
			w.Burst = uint64(b)
		}
	})
	if err != nil {
		res.viol = viol("open-error", "open: %v", err)
		return res
	}
	w.FS.StartLog(true)
	for _, op := range sc.Init {
		if v := w.Step(op); v != nil {
			w.Close()
			res.outcome = "init-failed"
			return res
		}
	}
	init := map[string]string{}
	for _, k := range w.Keys {
		if v, ok := w.Model[string(k.Digest)]; ok {
			init[k.Name] = string(v)
		}
	}
	if r, ok := sc.Extra["flushRate"].(float64); ok {
		w.S.VerifSetFlushRate(r)
	}
	w.S.Start()
	s := newSched(sc.Ticks, time.Duration(sc.Tick))
	s.chanPoints = sc.Extra["chanPoints"] == true
	var recs []callRec
	idxOf := make([][]int, len(sc.Threads))
	for ti, prog := range sc.Threads {
		for _, op := range prog {
			idxOf[ti] = append(idxOf[ti], len(recs))
			recs = append(recs, callRec{Thread: ti + 1, Op: op})
		}
	}
	var closeErr error
	closeReturned := false
	var logAtClose, openAtClose int
	var goroutinesAtClose []string
	var handlesAtClose []string
	for ti, prog := range sc.Threads {
		ti, prog := ti, prog
		s.spawn(fmt.Sprintf("T%d", ti+1), func() {
			for oi, op := range prog {
				r := &recs[idxOf[ti][oi]]
				s.clock++
				r.Call = s.clock
				if op.Kind == OpReopen {
					// in this engine OpReopen means "Close" only
					closeErr = w.S.Close()
					closeReturned = true
					logAtClose = w.FS.LogLen()
					_, openAtClose = w.FS.HandleCount()
					for _, h := range w.FS.OpenHandles() {
						handlesAtClose = append(handlesAtClose, h.Name+"@"+h.Site)
					}
					goroutinesAtClose = storeGoroutines()
					w.opened = false
				} else {
					w.doCall(op, r)
				}
				s.clock++
				r.Ret = s.clock
				r.Returned = true
			}
		})
	}
	s.run(choose)
	res.trace = schedTrace{decisions: append([]decision{}, s.trace.decisions...), steps: append([]string{}, s.trace.steps...)}
	res.aborted = s.aborted
	res.conflicts = s.conflicts
	if s.aborted != "" {
		if strings.HasPrefix(s.aborted, "replay-divergence") {
			fmt.Fprintf(os.Stderr, "DIVERGENCE %s: %s\n  steps: %v\n", sc.Name, s.aborted, s.trace.steps)
		} else {
			res.viol = viol("deadlock", "%s: %s", s.aborted, s.describe())
			res.outcome = "aborted:" + s.aborted
		}
		abortProcessAfter(res)
		return res
	}
	s.releaseAll()
	var sb strings.Builder
	for _, r := range recs {
		if r.Op.Kind == OpReopen {
			fmt.Fprintf(&sb, "T%d Close -> %v; ", r.Thread, closeErr)
			continue
		}
		sb.WriteString(r.String())
		sb.WriteString("; ")
	}
	check := func() *Violation {
		if !closeReturned {
			return viol("deadlock", "Close did not return: %s", s.describe())
		}
		if closeErr != nil {
			v := viol("call-error", "Close returned %v", closeErr)
			v.Culprit = "err:" + closeErr.Error()
			return v
		}
		if len(goroutinesAtClose) > 0 {
			v := violO("resources", "goroutine-outlives-close", "when Close returned these goroutines were still executing store code: %v", goroutinesAtClose)
			v.Culprit = strings.Join(goroutinesAtClose, ",")
			return v
		}
		if openAtClose != 0 {
			v := violO("resources", "handle:leaked", "when Close returned %d descriptor(s) were still open: %v", openAtClose, handlesAtClose)
			return v
		}
		// let time pass: three times the longest interval
		for i := 0; i < 3; i++ {
			time.Sleep(10*time.Second + time.Nanosecond)
			synctest.Wait()
		}
		if n := w.FS.LogLen(); n != logAtClose {
			m := w.FS.Log()[logAtClose]
			v := violO("resources", "fs-mutation-after-close", "%d file-system mutation(s) after Close returned; first: %s", n-logAtClose, m.String())
			v.Culprit = mutSiteInner(&m)
			return v
		}
		if g := storeGoroutines(); len(g) > 0 {
			v := violO("resources", "goroutine-outlives-close", "goroutines still executing store code long after Close: %v", g)
			v.Culprit = strings.Join(g, ",")
			return v
		}
		if _, open := w.FS.HandleCount(); open != 0 {
			return violO("resources", "handle:leaked", "%d descriptor(s) open long after Close: %v", open, w.FS.OpenHandles())
		}
		// every call that returned without error is part of the history; the
		// reopened store must be a linearization of it, also after GC
		for _, r := range recs {
			if r.Err != "" && isMapOp(r.Op.Kind) && r.Op.Kind != OpReopen {
				v := viol("call-error", "%s", r.String())
				v.Culprit = "err:" + r.Err
				return v
			}
		}
		for round := 0; round < 2; round++ {
			if round == 0 {
				if err := w.Open(); err != nil {
					return viol("open-error", "reopen after Close: %v", err)
				}
			} else {
				if mp := w.mh(); mp != nil {
					w.gcPrimary(mp, context.Background(), 0)
				}
				w.gcIndex(context.Background(), true)
				w.S.Flush()
				if mp := w.mh(); mp != nil {
					w.gcPrimary(mp, context.Background(), 0)
				}
			}
			step := s.clock + 10 + 100*round
			var finals []callRec
			for ki := range w.Keys {
				r := callRec{Thread: 0, Op: Op{Kind: OpGet, K: ki}, Call: step, Returned: true}
				w.doCall(r.Op, &r)
				step++
				r.Ret = step
				step++
				finals = append(finals, r)
				if r.Err != "" {
					v := viol("call-error", "after reopen (round %d): %s", round, r.String())
					v.Culprit = "err:" + r.Err
					return v
				}
				if round == 0 {
					sb.WriteString(r.String())
					sb.WriteString("; ")
				}
			}
			var hist []callRec
			for _, r := range recs {
				if r.Op.Kind != OpReopen {
					hist = append(hist, r)
				}
			}
			what := "after reopen"
			if round == 1 {
				what = "after reopen and one further GC round"
			}
			var fs strings.Builder
			for _, r := range finals {
				fs.WriteString(r.String())
				fs.WriteString("; ")
			}
			nl := viol("not-linearizable", "%s the store is not a linearization of the acknowledged calls: %s reads: %s", what, sb.String(), fs.String())
			if round == 1 {
				nl.Symptom = "not-linearizable-after-gc"
			}
			if inProg := sc.Extra["inProgress"]; inProg != nil {
				nl.Trigger = fmt.Sprintf("close-during:%v", inProg)
			}
			res.pending = append(res.pending, pendingLin{init, append(hist, finals...), sc.Cfg.Immutable, nl})
		}
		return nil
	}
	res.viol = check()
	res.outcome = sb.String()
	if res.viol != nil {
		if res.viol.Oracle == "" {
			res.viol.Oracle = "map"
		}
		inProg := sc.Extra["inProgress"]
		if inProg != nil && res.viol.Trigger == "" {
			res.viol.Trigger = fmt.Sprintf("close-during:%v", inProg)
		}
	}
	func() {
		defer func() { recover() }()
		if !closeReturned || w.opened {
			w.opened = true
			w.Close()
		}
	}()
	return res
}

func c17Scenarios(tier string) []*ConcScenario {
	// file 0 of the primary ends up as [K0=L70 (freed), K1=a (live)]: more
	// than 85% free, so the background primary GC (fixed threshold 85)
	// relocates K1 out of it; index files roll on every flush.
	G := []Op{P(0, 5), P(1, 1), opF, P(0, 1), opF, P(4, 1), opF, P(4, 2)}
	closeOp := Op{Kind: OpReopen}
	type prog struct {
		name   string
		init   []Op
		ths    [][]Op
		ticks  int
		tick   time.Duration
		inProg string
		bound  int
	}
	b := 2
	if tier != "quick" {
		b = 3
	}
	progs := []prog{
		{"idle", G, [][]Op{{closeOp}}, 0, 0, "nothing", b},
		{"flush-in-progress", G, [][]Op{{closeOp}}, 1, time.Second, "flusher", b},
		{"primary-gc-in-progress", G, [][]Op{{closeOp}}, 1, 5 * time.Second, "primary-gc", b - 1},
		{"index-gc-in-progress", G, [][]Op{{closeOp}}, 2, 5 * time.Second, "index-gc+primary-gc", b - 1},
	}
	if tier != "quick" {
		progs = append(progs,
			prog{"double-close", G, [][]Op{{closeOp}, {closeOp}}, 1, 5 * time.Second, "second-close+primary-gc", b - 1},
		)
	}
	var scs []*ConcScenario
	for _, c := range []Config{cfg("mh", false, 8, 1, 90)} {
		for _, p := range progs {
			for _, selDesc := range []bool{false, true} {
				cc := c
				cc.SelDesc = selDesc
				extra := map[string]any{"inProgress": p.inProg, "chanPoints": tier != "quick"}
				sc := &ConcScenario{Prop: "C17", Cfg: cc, Init: p.init, Threads: p.ths, Bound: p.bound, Ticks: p.ticks, Tick: int64(p.tick), Exec: execClose, Extra: extra}
				sc.Name = fmt.Sprintf("c17/%s/seldesc=%v", p.name, selDesc)
				sc.Desc = fmt.Sprintf("real flusher + both collectors (sync 1s, GC interval 10s, primary GC first at 5s), %d tick(s) of %v, select priority desc=%v, bound %d; init [%s]; %s (Reopen[snapshot] stands for Close)", p.ticks, p.tick, selDesc, p.bound, opsString(p.init), progString(p.ths))
				scs = append(scs, sc)
			}
		}
	}
	return scs
}

// ---- C17, sequential part: failing opens and repeated open/close ----

func runC17Seq(t *testing.T, c *Collector) {
	if c.job.Shard != 0 {
		return
	}
	type failing struct {
		name   string
		mutate func(w *World) // damage files / change configuration
		opts   func(w *World) []store.Option
		ptype  string
	}
	withIdxFS := func(n uint32) func(w *World) []store.Option {
		return func(w *World) []store.Option {
			o := w.options()
			return append(o, store.IndexFileSize(n))
		}
	}
	cases := []failing{
		{"index-file-size-mismatch", nil, withIdxFS(64), ""},
		{"primary-file-size-mismatch", nil, func(w *World) []store.Option { return append(w.options(), store.PrimaryFileSize(64)) }, ""},
		{"both-file-sizes-mismatch", nil, func(w *World) []store.Option {
			return append(w.options(), store.PrimaryFileSize(64), store.IndexFileSize(64))
		}, ""},
		{"bit-size-change+index-file-size-mismatch", nil, func(w *World) []store.Option {
			return append(w.options(), store.IndexBitSize(12), store.IndexFileSize(64))
		}, ""},
		{"empty-index-header", func(w *World) { w.FS.WriteFileRaw(idxPath+".info", nil) }, nil, ""},
		{"garbage-index-header", func(w *World) { w.FS.WriteFileRaw(idxPath+".info", []byte("{not json")) }, nil, ""},
		{"garbage-primary-header", func(w *World) { w.FS.WriteFileRaw(dataPath+".info", []byte("\x00\x01")) }, nil, ""},
		{"unsupported-primary-type", nil, nil, "no-such-primary"},
		// a legacy single-file index (6-byte header: version, bucket bits)
		// of a version the upgrade does not know, and one cut off inside its
		// header
		{"legacy-index-unknown-version", func(w *World) {
			for _, n := range w.FS.Names() {
				if strings.HasPrefix(n, idxPath) {
					w.FS.RemoveRaw(n)
				}
			}
			w.FS.WriteFileRaw(idxPath, []byte{2, 0, 0, 0, 1, 8, 0, 0, 0, 0})
		}, nil, ""},
		{"legacy-index-short-header", func(w *World) {
			for _, n := range w.FS.Names() {
				if strings.HasPrefix(n, idxPath) {
					w.FS.RemoveRaw(n)
				}
			}
			w.FS.WriteFileRaw(idxPath, []byte{2, 0, 0})
		}, nil, ""},
	}
	for _, fc := range cases {
		fc := fc
		synctest.Test(t, func(t *testing.T) {
			c.res.Evaluations++
			w, err := NewWorld(cfg("mh", false, 8, 48, 48))
			if err != nil {
				c.res.InfraError = err.Error()
				return
			}
			w.FS.TrackSites(true)
			for _, op := range []Op{P(0, 1), P(1, 2), opF, P(4, 1), R(1), P(0, 3)} {
				c.res.Transitions++
				if v := w.Step(op); v != nil {
					w.Close()
					return
				}
			}
			if err := w.Close(); err != nil {
				return
			}
			good := w.FS.Image()
			if fc.mutate != nil {
				fc.mutate(w)
			}
			opts := w.options()
			if fc.opts != nil {
				opts = fc.opts(w)
			}
			ptype := w.Cfg.primaryType()
			if fc.ptype != "" {
				ptype = fc.ptype
			}
			vos.SetBackend(w.FS)
			s, err := store.OpenStore(context.Background(), ptype, dataPath, idxPath, false, opts...)
			c.res.Transitions++
			report := func(v *Violation) {
				v.Property = "C17"
				v.Oracle = "resources"
				v.Trigger = "failing-open:" + fc.name
				v.History = "Put(K0,a); Put(K1,bb); Flush; Put(K4,a); Remove(K1); Put(K0,cc); Close; OpenStore[" + fc.name + "]"
				v.Replay = map[string]any{"engine": "S-open", "case": fc.name}
				c.violation(v, 0)
			}
			if err == nil {
				s.Close()
				report(viol("wrong-return", "OpenStore[%s] succeeded, expected it to fail", fc.name))
				return
			}
			synctest.Wait()
			if _, open := w.FS.HandleCount(); open != 0 {
				report(viol("handle:leaked", "failed OpenStore[%s] (%v) left %d descriptor(s) open: %v", fc.name, err, open, w.FS.OpenHandles()))
				return
			}
			if g := storeGoroutines(); len(g) > 0 {
				v := viol("goroutine-outlives-close", "failed OpenStore[%s] (%v) left goroutines running: %v", fc.name, err, g)
				v.Culprit = strings.Join(g, ",")
				report(v)
				return
			}
			c.stateKey("failing-open:" + fc.name + ":" + err.Error())
			c.count("nontrivial", 1)
			// the directory still opens with the right settings (from the undamaged image)
			if fc.mutate == nil {
				if err := w.Open(); err != nil {
					report(viol("open-error", "after failed OpenStore[%s] the store no longer opens with its own settings: %v", fc.name, err))
					return
				}
				if v := w.Reads(); v != nil {
					v.Detail = "after failed OpenStore[" + fc.name + "]: " + v.Detail
					report(v)
				}
				w.Close()
			}
			_ = good
		})
	}
	// a successful re-bucketing reopen followed by Close leaves nothing open
	for _, nb := range []uint8{12, 8, 9} {
		nb := nb
		synctest.Test(t, func(t *testing.T) {
			c.res.Evaluations++
			w, err := NewWorld(cfg("mh", false, 16, 48, 48))
			if err != nil {
				c.res.InfraError = err.Error()
				return
			}
			w.FS.TrackSites(true)
			for _, op := range []Op{P(0, 1), P(1, 2), opF, P(4, 1), opF, P(3, 1), opF, {Kind: OpRebits, A: int(nb)}, P(2, 1), opF} {
				c.res.Transitions++
				if v := w.Step(op); v != nil {
					w.Close()
					return
				}
			}
			if err := w.Close(); err != nil {
				return
			}
			synctest.Wait()
			_, open := w.FS.HandleCount()
			g := storeGoroutines()
			if open != 0 || len(g) != 0 {
				v := viol("handle:leaked", "after reopening with %d instead of 16 index bits and Close: %d descriptor(s) open %v, goroutines %v", nb, open, w.FS.OpenHandles(), g)
				if open == 0 {
					v.Symptom = "goroutine-outlives-close"
				}
				v.Property, v.Oracle, v.Trigger = "C17", "resources", "close-after-rebucketing"
				v.History = fmt.Sprintf("Put...; Flush x3; Close; reopen with %d bits; Put; Flush; Close", nb)
				v.Replay = map[string]any{"engine": "S-open", "case": "rebucket", "bits": nb}
				c.violation(v, 0)
				return
			}
			c.stateKey(fmt.Sprintf("rebucket-%d", nb))
			c.count("nontrivial", 1)
		})
	}
	// repetition: open / ops / close cycles must not accumulate anything
	synctest.Test(t, func(t *testing.T) {
		c.res.Evaluations++
		w, err := NewWorld(cfg("mh", false, 8, 48, 48))
		if err != nil {
			c.res.InfraError = err.Error()
			return
		}
		for i := 0; i < 20; i++ {
			w.S.Start()
			for _, op := range []Op{P(i%5, 1+i%3), R((i + 1) % 5), opF, {Kind: OpPriGC, A: 50}, {Kind: OpIdxGC, B: true}} {
				c.res.Transitions++
				if v := w.Step(op); v != nil {
					w.Close()
					return
				}
			}
			if err := w.Close(); err != nil {
				return
			}
			synctest.Wait()
			_, open := w.FS.HandleCount()
			g := storeGoroutines()
			if open != 0 || len(g) != 0 {
				v := viol("handle:leaked", "after open/close cycle %d: %d descriptor(s) open, goroutines %v", i+1, open, g)
				if len(g) != 0 {
					v.Symptom = "goroutine-outlives-close"
				}
				v.Property, v.Oracle, v.Trigger = "C17", "resources", "repeated-open-close"
				v.History = fmt.Sprintf("%d open/ops/close cycles", i+1)
				v.Replay = map[string]any{"engine": "S-open", "case": "repeat"}
				c.violation(v, i)
				return
			}
			if err := w.Open(); err != nil {
				return
			}
		}
		w.Close()
		c.count("nontrivial", 1)
		c.stateKey("repeat-20")
	})
}


// ---- C13 under engine A: freelist Put / Flush / hand-over interleaved ----

// ledgerConcFinal: every key is updated by at most one call of the scenario,
// so the location that stops being current is the one the key had before the
// threads started, whatever the interleaving.
func ledgerConcFinal(w *World, s *Sched, recs []callRec, res *execResult) {
	if res.viol != nil || w.ledger == nil {
		return
	}
	w.ledger.concurrent = true
	// every key is updated by one thread only; its calls are in program
	// order in recs, so the location an update supersedes is the one the
	// previous update of that key produced (or the initial one)
	curLoc := map[string]types.Block{}
	hasLoc := map[string]bool{}
	for d, b := range w.initLocs {
		curLoc[d], hasLoc[d] = b, true
	}
	for _, r := range recs {
		if !r.Returned || r.Err != "" {
			continue
		}
		k := w.keyByName(r.Key)
		d := string(k.Digest)
		switch r.Op.Kind {
		case OpPut:
			if hasLoc[d] {
				w.ledger.superseded(curLoc[d], "overwrite of "+r.Key)
			}
			if r.HasLocAfter {
				curLoc[d], hasLoc[d] = r.LocAfter, true
				w.ledger.markCurrent(r.LocAfter)
			} else {
				hasLoc[d] = false
			}
		case OpRemove:
			if hasLoc[d] && r.Removed {
				w.ledger.superseded(curLoc[d], "remove of "+r.Key)
			}
			hasLoc[d] = false
		}
	}
	// the model is what the quiescent store holds (only used for "is this
	// location current")
	w.Model = map[string][]byte{}
	for _, k := range w.Keys {
		if v, found, err := w.S.Get(k.Raw); err == nil && found {
			w.Model[string(k.Digest)] = v
		}
	}
	w.ledger.noteCurrent(w)
	for _, b := range w.initLocs {
		w.ledger.everCurrent[flEntry{uint64(b.Offset), uint32(b.Size)}] = true
	}
	if err := w.S.Flush(); err != nil {
		return
	}
	// Store.Flush returns early when only the freelist has unflushed entries
	// (they go out with the next flush that has index or primary work, or at
	// Close); write them now so that "presented exactly once" can be checked
	if _, err := w.S.VerifFreelist().Flush(); err != nil {
		return
	}
	if v := w.ledger.Check(w, false); v != nil {
		res.viol = v
		return
	}
	if mp := w.mh(); mp != nil {
		for i := 0; i < 2; i++ {
			w.gcPrimary(mp, context.Background(), 101)
		}
		if v := w.ledger.Check(w, true); v != nil {
			res.viol = v
		}
	}
}

func c13ConcScenarios(tier string) []*ConcScenario {
	// K1 overwritten and flushed: the freelist file is not empty; K0 and K4
	// present and flushed
	init := []Op{P(0, 1), P(1, 1), P(4, 1), opF, P(1, 2), opF}
	gc := []Op{{Kind: OpPriGC, A: 101}}
	progs := [][][]Op{
		{{P(0, 2)}, {opF}, gc},
		{{P(0, 2), opF}, gc},
		{{R(4)}, {P(0, 2)}, {opF}},
		{{R(4), opF}, {P(0, 2)}, gc},
		// two overwrites of one key around a flush: the freelist can name a
		// record that is still in the primary's write pool
		{{P(0, 2), P(0, 3)}, {opF}},
		{{P(0, 2), P(0, 3)}, {opF}, gc},
	}
	bound := 2
	cfgs := []Config{cfg("mh", false, 8, 48, 48)}
	if tier != "quick" {
		bound = 3
		cfgs = append(cfgs, cfg("mh", false, 8, 1, 1))
		progs = append(progs, [][]Op{{P(0, 2)}, {R(4)}, {opF}, gc})
	}
	var scs []*ConcScenario
	for _, c := range cfgs {
		for _, ths := range progs {
			sc := &ConcScenario{Prop: "C13", Cfg: c, Init: init, Threads: ths, Bound: bound, Exec: execStore,
				Extra: map[string]any{"logSites": true, "final": ledgerConcFinal}}
			sc.Name = fmt.Sprintf("c13/%s/%s", c.String(), progString(ths))
			sc.Desc = fmt.Sprintf("init [%s]; %s", opsString(init), progString(ths))
			scs = append(scs, sc)
		}
		// with unflushed work at the start, so that a Flush thread commits
		// (primary, then index, then freelist) while K0 is overwritten twice
		init2 := append(append([]Op{}, init...), P(4, 2))
		ths := [][]Op{{P(0, 2), P(0, 3)}, {opF}, gc}
		sc := &ConcScenario{Prop: "C13", Cfg: c, Init: init2, Threads: ths, Bound: bound, Exec: execStore,
			Extra: map[string]any{"logSites": true, "final": ledgerConcFinal}}
		sc.Name = fmt.Sprintf("c13/%s/unflushed/%s", c.String(), progString(ths))
		sc.Desc = fmt.Sprintf("init [%s]; %s", opsString(init2), progString(ths))
		scs = append(scs, sc)
	}
	return scs
}


// c07ConcScenarios: the C06 scenario set with one preemption less and fsck as
// the only oracle (C07: "every quiescent state reachable in the explorations
// of C01-C06").
func c07ConcScenarios(tier string) []*ConcScenario {
	var out []*ConcScenario
	for _, sc := range c06Scenarios(tier) {
		c := *sc
		c.Prop = "C07"
		c.Bound = sc.Bound - 1
		c.Name = "c07/" + sc.Name
		c.Extra = map[string]any{"fsckOnly": true}
		out = append(out, &c)
	}
	return out
}

// c03ConcScenarios: crash points of executions in which a Flush (or a GC
// cycle) overlaps callers. The initial content is flushed; "pre" leaves one
// acknowledged, unflushed Put so that the Flush thread has work to commit from
// its first step on.
func c03ConcScenarios(tier string) []*ConcScenario {
	init := []Op{P(0, 1), P(1, 1), opF}
	pre := []Op{P(4, 1)}
	progs := [][][]Op{
		{{opF}, {P(0, 2)}},
		{{opF}, {R(0)}},
		{{opF}, {P(0, 2), P(0, 3)}},
		{{opF}, {P(3, 1)}},
		{{opF}, {R(0), P(0, 2)}},
	}
	gcProgs := [][][]Op{
		{{{Kind: OpPriGC, A: 0}}, {P(0, 2), opF}},
		{{{Kind: OpIdxGC, B: true}}, {P(0, 2), opF}},
		// the hand-over of the freelist file to GC between a commit's
		// reading of the put count and its freelist flush
		{{{Kind: OpPriGC, A: 0}}, {opF}, {P(0, 2)}},
	}
	bound := 2
	cfgs := []Config{cfg("mh", false, 8, 48, 48), cfg("mh", false, 8, 1, 1)}
	if tier != "quick" {
		bound = 3
		cfgs = append(cfgs, cfg("mh", false, 8, bigFile, bigFile), cfg("cid", false, 8, 48, bigFile))
		progs = append(progs,
			[][]Op{{opF, opF}, {P(0, 2), P(1, 2)}},
			[][]Op{{opF}, {P(0, 2)}, {P(1, 2)}},
			[][]Op{{opF}, {P(0, 2)}, {R(1)}})
		gcProgs = append(gcProgs,
			[][]Op{{{Kind: OpIdxGC, B: false}}, {opF}, {P(0, 2)}})
	}
	var scs []*ConcScenario
	add := func(c Config, init, pre []Op, ths [][]Op, b int) {
		sc := &ConcScenario{Prop: "C03", Cfg: c, Init: init, Threads: ths, Bound: b, Exec: execStore,
			Extra: map[string]any{"crash": true, "pre": pre}}
		sc.Name = fmt.Sprintf("c03conc/%s/pre[%s]/%s", c.String(), opsString(pre), progString(ths))
		sc.Desc = fmt.Sprintf("init [%s] flushed; then [%s] unflushed; %s; crash at every point of the execution", opsString(init), opsString(pre), progString(ths))
		scs = append(scs, sc)
	}
	for _, c := range cfgs {
		for _, ths := range progs {
			add(c, init, pre, ths, bound)
			add(c, init, nil, ths, bound)
		}
		// superseded records and freed locations for the collectors
		gcInit := []Op{P(0, 1), P(1, 1), P(4, 1), opF, P(1, 2), P(4, 2), opF}
		for _, ths := range gcProgs {
			add(c, gcInit, nil, ths, bound-1)
		}
	}
	return scs
}

// c12MeasuredWork runs ops sequentially on a fresh store and returns the
// outstanding work a writer would measure after them.
func c12MeasuredWork(c Config, ops []Op) uint64 {
	w, err := NewWorld(c)
	if err != nil {
		return 0
	}
	defer w.Close()
	for _, op := range ops {
		var r callRec
		w.doCall(op, &r)
	}
	return uint64(w.idx().OutstandingWork() + w.S.Primary().OutstandingWork() + w.S.VerifFreelist().OutstandingWork())
}
