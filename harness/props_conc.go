package harness

import (
	"context"
	"os"
	"testing/synctest"
	"regexp"
	"errors"
	"fmt"
	"sort"
	"strings"
	"testing"
	"time"

	"github.com/anishathalye/porcupine"
)

// ---- recorded concurrent history ----

type callRec struct {
	Thread   int
	Op       Op
	Key      string // key name
	Call     int
	Ret      int
	Found    bool
	Val      string
	Size     int
	Removed  bool
	Err      string
	Returned bool
}

func (r callRec) String() string {
	switch r.Op.Kind {
	case OpPut:
		return fmt.Sprintf("T%d %s -> err=%q", r.Thread, r.Op, r.Err)
	case OpRemove:
		return fmt.Sprintf("T%d %s -> %v err=%q", r.Thread, r.Op, r.Removed, r.Err)
	case OpGet:
		return fmt.Sprintf("T%d %s -> (%q,%v) err=%q", r.Thread, r.Op, r.Val, r.Found, r.Err)
	case OpHas:
		return fmt.Sprintf("T%d %s -> %v err=%q", r.Thread, r.Op, r.Found, r.Err)
	case OpGetSize:
		return fmt.Sprintf("T%d %s -> (%d,%v) err=%q", r.Thread, r.Op, r.Size, r.Found, r.Err)
	}
	return fmt.Sprintf("T%d %s -> err=%q", r.Thread, r.Op, r.Err)
}

// doCall performs op on the store without consulting the model.
func (w *World) doCall(op Op, rec *callRec) {
	defer func() {
		if r := recover(); r != nil {
			rec.Err = fmt.Sprintf("panic: %v", r)
		}
	}()
	switch op.Kind {
	case OpPut:
		k := w.Keys[op.K]
		rec.Key = k.Name
		if err := w.S.Put(k.Raw, values[op.V]); err != nil {
			rec.Err = err.Error()
		}
	case OpRemove:
		k := w.Keys[op.K]
		rec.Key = k.Name
		ok, err := w.S.Remove(k.Raw)
		rec.Removed = ok
		if err != nil {
			rec.Err = err.Error()
		}
	case OpGet:
		k := w.Keys[op.K]
		rec.Key = k.Name
		v, found, err := w.S.Get(k.Raw)
		rec.Val, rec.Found = string(v), found
		if err != nil {
			rec.Err = err.Error()
		}
	case OpHas:
		k := w.Keys[op.K]
		rec.Key = k.Name
		found, err := w.S.Has(k.Raw)
		rec.Found = found
		if err != nil {
			rec.Err = err.Error()
		}
	case OpGetSize:
		k := w.Keys[op.K]
		rec.Key = k.Name
		sz, found, err := w.S.GetSize(k.Raw)
		rec.Size, rec.Found = int(sz), found
		if err != nil {
			rec.Err = err.Error()
		}
	case OpFlush:
		if err := w.S.Flush(); err != nil {
			rec.Err = err.Error()
		}
	case OpIdxGC:
		_, _, err := w.gcIndex(context.Background(), op.B)
		if err != nil {
			rec.Err = err.Error()
		}
	case OpPriGC:
		if mp := w.mh(); mp != nil {
			_, err := w.gcPrimary(mp, context.Background(), int64(op.A))
			if err != nil {
				rec.Err = err.Error()
			}
		}
	}
}

// ---- linearizability (porcupine) ----

type linIn struct {
	kind OpKind
	key  string
	val  string
	imm  bool
}

type linOut struct {
	found   bool
	val     string
	size    int
	removed bool
	exists  bool // Put returned key-exists
}

type linState struct {
	present bool
	val     string
}

var linModel = porcupine.Model{
	Partition: func(history []porcupine.Operation) [][]porcupine.Operation {
		byKey := map[string][]porcupine.Operation{}
		var keys []string
		for _, op := range history {
			k := op.Input.(linIn).key
			if _, ok := byKey[k]; !ok {
				keys = append(keys, k)
			}
			byKey[k] = append(byKey[k], op)
		}
		sort.Strings(keys)
		out := make([][]porcupine.Operation, 0, len(keys))
		for _, k := range keys {
			out = append(out, byKey[k])
		}
		return out
	},
	Init: func() interface{} { return linState{} },
	Step: func(state, input, output interface{}) (bool, interface{}) {
		st := state.(linState)
		in := input.(linIn)
		out := output.(linOut)
		switch in.kind {
		case OpPut:
			if in.imm && st.present {
				return out.exists, st
			}
			if out.exists {
				return false, st
			}
			return true, linState{true, in.val}
		case OpRemove:
			return out.removed == st.present, linState{}
		case OpGet:
			return out.found == st.present && (!st.present || out.val == st.val), st
		case OpHas:
			return out.found == st.present, st
		case OpGetSize:
			return out.found == st.present && (!st.present || out.size == len(st.val)), st
		}
		return true, st
	},
	Equal: func(a, b interface{}) bool { return a.(linState) == b.(linState) },
}

func isMapOp(k OpKind) bool {
	return k == OpPut || k == OpRemove || k == OpGet || k == OpHas || k == OpGetSize
}

// checkLinearizable returns "" or the key whose sub-history has no
// linearization.
func checkLinearizable(init map[string]string, recs []callRec, imm bool) bool {
	var ops []porcupine.Operation
	t := int64(-1000)
	for k, v := range init {
		ops = append(ops, porcupine.Operation{ClientId: 0, Input: linIn{kind: OpPut, key: k, val: v}, Call: t, Output: linOut{}, Return: t + 1})
		t += 2
	}
	for _, r := range recs {
		if !isMapOp(r.Op.Kind) || !r.Returned {
			continue
		}
		in := linIn{kind: r.Op.Kind, key: r.Key, imm: imm}
		if r.Op.Kind == OpPut {
			in.val = string(values[r.Op.V])
		}
		out := linOut{found: r.Found, val: r.Val, size: r.Size, removed: r.Removed, exists: r.Err == "key exists"}
		ops = append(ops, porcupine.Operation{ClientId: r.Thread, Input: in, Call: int64(r.Call), Output: out, Return: int64(r.Ret)})
	}
	return porcupine.CheckOperations(linModel, ops)
}

// ---- the standard store execution for engine A ----

type storeExecOpts struct {
	startFlusher bool
	final        func(w *World, s *Sched, recs []callRec) *Violation
}

// execStore builds the initial state sequentially, runs the thread programs
// under the scheduler, lets everything quiesce, and applies the oracles.
func execStore(t *testing.T, sc *ConcScenario, choose chooser) *execResult {
	res := &execResult{}
	w, err := newWorldWith(sc.Cfg, func(w *World) {
		if d, ok := sc.Extra["sync"].(time.Duration); ok {
			w.Sync = d
		}
		if d, ok := sc.Extra["gcint"].(time.Duration); ok {
			w.GCInt = d
		}
		if b, ok := sc.Extra["burst"].(int); ok {
			w.Burst = uint64(b)
		}
	})
	if err != nil {
		res.viol = viol("open-error", "open: %v", err)
		return res
	}
	if sc.Extra["logSites"] == true {
		w.FS.StartLog(true)
		w.ledger = &Ledger{}
	}
	for _, op := range sc.Init {
		if v := w.Step(op); v != nil {
			// the sequential set-up itself misbehaves: not this engine's business
			w.Close()
			res.outcome = "init-failed"
			return res
		}
	}
	init := map[string]string{}
	for _, k := range w.Keys {
		if v, ok := w.Model[string(k.Digest)]; ok {
			init[k.Name] = string(v)
		}
	}
	if r, ok := sc.Extra["flushRate"].(float64); ok {
		w.S.VerifSetFlushRate(r)
	}
	if sc.Extra["flusher"] == true {
		w.S.Start()
	}
	s := newSched(sc.Ticks, time.Duration(sc.Tick))
	recs := make([]callRec, 0, 8)
	idxOf := make([][]int, len(sc.Threads))
	for ti, prog := range sc.Threads {
		for _, op := range prog {
			idxOf[ti] = append(idxOf[ti], len(recs))
			recs = append(recs, callRec{Thread: ti + 1, Op: op})
		}
	}
	for ti, prog := range sc.Threads {
		ti, prog := ti, prog
		s.spawn(fmt.Sprintf("T%d", ti+1), func() {
			for oi, op := range prog {
				r := &recs[idxOf[ti][oi]]
				s.clock++
				r.Call = s.clock
				w.doCall(op, r)
				s.clock++
				r.Ret = s.clock
				r.Returned = true
			}
		})
	}
	s.run(choose)
	// only decisions of the main phase are branch points; what follows (fair
	// continuation, quiescent finals) is deterministic given them
	res.trace = schedTrace{decisions: append([]decision{}, s.trace.decisions...), steps: append([]string{}, s.trace.steps...)}
	res.aborted = s.aborted
	res.conflicts = s.conflicts
	if s.aborted == "deadlock" && sc.Extra["fair"] == true {
		// Fair continuation: flushes keep succeeding (the ticker keeps
		// firing); a writer that is still waiting after three more ticks with
		// nothing else to do waits for ever.
		s.aborted = ""
		s.ticks = 3
		s.run(func(d *decision, idx int) int { return 0 })
		res.steps = len(s.trace.decisions)
		res.aborted = s.aborted
		if s.aborted == "deadlock" {
			blocked := s.harnessBlocked()
			res.viol = viol("stuck-writer", "after the schedule and 3 further fair ticks %v still wait(s) although every flush succeeded: %s", blocked, s.describe())
			res.outcome = "stuck-writer"
			// clean up so that the bubble can end: create work and flush
			s.releaseAll()
			k := w.Probes[0]
			for i := 0; i < 8 && len(s.harnessBlocked()) > 0; i++ {
				synctest.Wait()
				w.S.Primary().Put(k.Raw, []byte("cleanup"))
				w.S.Flush()
				synctest.Wait()
			}
			if len(s.harnessBlocked()) > 0 {
				abortProcessAfter(res)
				return res
			}
			func() {
				defer func() { recover() }()
				w.Close()
			}()
			classifyConc(sc, recs, res.viol, init, nil)
			return res
		}
	}
	if s.aborted != "" {
		if strings.HasPrefix(s.aborted, "replay-divergence") {
			fmt.Fprintf(os.Stderr, "DIVERGENCE %s: %s\n  steps: %v\n", sc.Name, s.aborted, s.trace.steps)
			abortProcessAfter(res)
			return res
		}
		res.viol = viol("deadlock", "%s: %s", s.aborted, s.describe())
		res.outcome = "aborted:" + s.aborted
		abortProcessAfter(res)
		return res
	}
	s.releaseAll()
	// oracles
	var sb strings.Builder
	for _, r := range recs {
		sb.WriteString(r.String())
		sb.WriteString("; ")
	}
	for _, r := range recs {
		if r.Err != "" && !(r.Err == "key exists" && sc.Cfg.Immutable && r.Op.Kind == OpPut) {
			if isMapOp(r.Op.Kind) || r.Op.Kind == OpFlush || strings.HasPrefix(r.Err, "panic") {
				sym := "call-error"
				if strings.HasPrefix(r.Err, "panic") {
					sym = "panic"
				}
				res.viol = viol(sym, "%s", r.String())
				res.viol.Culprit = "err:" + r.Err
				break
			}
		}
	}
	// quiescent final reads, appended to the history
	step := s.clock + 10
	if err := w.S.Flush(); err != nil && res.viol == nil {
		res.viol = viol("call-error", "final Flush: %v", err)
	}
	finals := make([]callRec, 0, 3*len(w.Keys))
	for ki := range w.Keys {
		for _, kind := range []OpKind{OpGet, OpHas, OpGetSize} {
			r := callRec{Thread: 0, Op: Op{Kind: kind, K: ki}, Call: step, Ret: step, Returned: true}
			w.doCall(r.Op, &r)
			step++
			r.Ret = step
			step++
			finals = append(finals, r)
			if r.Err != "" && res.viol == nil {
				res.viol = viol("call-error", "final %s", r.String())
				res.viol.Culprit = "err:" + r.Err
			}
		}
		sb.WriteString(finals[len(finals)-3].String())
		sb.WriteString("; ")
	}
	res.outcome = sb.String()
	all := append(append([]callRec{}, recs...), finals...)
	if res.viol == nil && !checkLinearizable(init, all, sc.Cfg.Immutable) {
		res.viol = viol("not-linearizable", "no linearization of: %s", sb.String())
	}
	if fn, ok := sc.Extra["final"].(func(w *World, s *Sched, recs []callRec, res *execResult)); ok {
		fn(w, s, recs, res)
	}
	if res.viol != nil {
		classifyConc(sc, recs, res.viol, init, finals)
	}
	func() {
		defer func() { recover() }()
		w.Close()
	}()
	return res
}

// abortProcessAfter is set by the worker main: an execution that cannot be
// completed (deadlock, divergence) leaves goroutines parked for ever, so the
// bubble can never end; the worker writes its results and exits.
var abortProcessAfter = func(res *execResult) {}

// overlap reports whether two calls overlapped in (logical) time.
func overlap(a, b callRec) bool {
	return a.Call <= b.Ret && b.Call <= a.Ret
}

var digitsRe = regexp.MustCompile(`[0-9]+`)

// classifyConc evaluates trace predicates for known-finding matching.
func classifyConc(sc *ConcScenario, recs []callRec, v *Violation, init map[string]string, finals []callRec) {
	isUpd := func(k OpKind) bool { return k == OpPut || k == OpRemove }
	var trig []string
	sameKey, prefixPair, idxGCvsCall, priGCvsUpd := false, false, false, false
	for i := range recs {
		for j := i + 1; j < len(recs); j++ {
			a, b := recs[i], recs[j]
			if a.Thread == b.Thread || !overlap(a, b) {
				continue
			}
			for _, p := range [][2]callRec{{a, b}, {b, a}} {
				if p[0].Op.Kind == OpIdxGC && isMapOp(p[1].Op.Kind) {
					idxGCvsCall = true
				}
				if p[0].Op.Kind == OpPriGC && isUpd(p[1].Op.Kind) {
					priGCvsUpd = true
				}
			}
			if !isUpd(a.Op.Kind) || !isUpd(b.Op.Kind) {
				continue
			}
			if a.Key == b.Key {
				sameKey = true
			} else if a.Key != "K4" && b.Key != "K4" && (a.Op.Kind == OpRemove || b.Op.Kind == OpRemove) {
				// a Remove overlapping an update of a different key of the
				// same bucket (Index.Remove/Update match by stored prefix)
				prefixPair = true
			}
		}
	}
	if sameKey {
		trig = append(trig, "concurrent-updates-same-key")
	}
	if prefixPair {
		trig = append(trig, "remove-concurrent-with-update-in-same-bucket")
	}
	if idxGCvsCall && v.Symptom == "call-error" {
		trig = append(trig, "call-overlaps-index-gc")
	}
	if priGCvsUpd && v.Symptom == "not-linearizable" {
		// did a key fall back to the value it had before the concurrent phase
		// although an acknowledged update changed it?
		reverted := false
		for _, f := range finals {
			if f.Op.Kind != OpGet {
				continue
			}
			iv, ip := init[f.Key]
			if f.Found != ip || (ip && f.Val != iv) {
				continue
			}
			for _, r := range recs {
				if r.Key == f.Key && r.Returned && r.Err == "" && ((r.Op.Kind == OpPut && (!ip || string(values[r.Op.V]) != iv)) || (r.Op.Kind == OpRemove && r.Removed)) {
					reverted = true
				}
			}
		}
		if reverted {
			trig = append(trig, "update-overlaps-primary-gc+key-reverted-to-pre-update-value")
		}
	}
	if v.Symptom == "not-linearizable" {
		// a read that came back empty while it overlapped both a primary GC
		// cycle and an update of the same key by another thread
		isRead := func(k OpKind) bool { return k == OpGet || k == OpHas || k == OpGetSize }
		for _, r := range recs {
			if !isRead(r.Op.Kind) || r.Found {
				continue
			}
			gc, upd := false, false
			for _, o := range recs {
				if o.Thread == r.Thread || !overlap(r, o) {
					continue
				}
				if o.Op.Kind == OpPriGC {
					gc = true
				}
				if isUpd(o.Op.Kind) && o.Key == r.Key {
					upd = true
				}
			}
			if gc && upd {
				trig = append(trig, "empty-read-overlaps-primary-gc-and-update-of-same-key")
				break
			}
		}
	}
	if len(trig) > 0 {
		v.Trigger = strings.Join(trig, "+")
	}
	if strings.HasPrefix(v.Culprit, "err:") {
		v.Culprit = digitsRe.ReplaceAllString(v.Culprit, "N")
	}
}

func isErr(err error, target error) bool { return errors.Is(err, target) }

// ---- C05 scenarios ----

func P(k, v int) Op { return Op{Kind: OpPut, K: k, V: v} }
func R(k int) Op    { return Op{Kind: OpRemove, K: k} }
func G(k int) Op    { return Op{Kind: OpGet, K: k} }
func H(k int) Op    { return Op{Kind: OpHas, K: k} }
func Z(k int) Op    { return Op{Kind: OpGetSize, K: k} }

var opF = Op{Kind: OpFlush}

type namedInit struct {
	name string
	ops  []Op
}

func c05Inits() []namedInit {
	return []namedInit{
		{"I0-empty", nil},
		{"I1-K0-flushed", []Op{P(0, 1), opF}},
		{"I2-K0-unflushed", []Op{P(0, 1)}},
		{"I3-K0K1-flushed", []Op{P(0, 1), P(1, 1), opF}},
		{"I4-K1-only", []Op{P(1, 1), opF}},
		{"I5-K0K1-flushed-twice", []Op{P(0, 1), P(1, 1), opF, P(4, 1), opF}},
	}
}

func progString(ts [][]Op) string {
	parts := make([]string, len(ts))
	for i, t := range ts {
		parts[i] = fmt.Sprintf("T%d[%s]", i+1, opsString(t))
	}
	return strings.Join(parts, " || ")
}

func c05Scenarios(tier string) []*ConcScenario {
	pairs := [][][]Op{
		{{P(0, 2)}, {P(0, 3)}},
		{{P(0, 2)}, {R(0)}},
		{{P(0, 2)}, {P(1, 2)}},
		{{R(0)}, {P(1, 2)}},
		{{R(0)}, {R(1)}},
		{{R(0)}, {R(0), P(1, 2)}},
		{{P(0, 2)}, {G(0)}},
		{{P(1, 2)}, {G(0), H(0)}},
		{{R(0)}, {G(0)}},
		{{R(1)}, {Z(0)}},
		{{P(0, 2), G(0)}, {G(0)}},
	}
	inits := c05Inits()
	cfgs := []Config{cfg("mh", false, 8, 48, 48)}
	bound := 2
	if tier != "quick" {
		cfgs = append(cfgs, cfg("mh", false, 8, 1, 1), cfg("cid", false, 8, 48, bigFile), cfg("mh", true, 8, 48, 48))
		pairs = append(pairs,
			[][]Op{{P(0, 2)}, {P(0, 3)}, {G(0)}},
			[][]Op{{P(0, 2)}, {R(0)}, {P(1, 2)}},
			[][]Op{{R(0), P(0, 2)}, {R(1), P(1, 2)}},
		)
	}
	var scs []*ConcScenario
	for _, c := range cfgs {
		for _, in := range inits {
			for _, pr := range pairs {
				for _, withFlush := range []bool{false, true} {
					ths := append([][]Op{}, pr...)
					if withFlush {
						ths = append(ths, []Op{opF})
					}
					sc := &ConcScenario{Prop: "C05", Cfg: c, Init: in.ops, Threads: ths, Bound: bound, Exec: execStore}
					sc.Name = fmt.Sprintf("c05/%s/%s/%s", c.String(), in.name, progString(ths))
					sc.Desc = fmt.Sprintf("init %s [%s]; %s", in.name, opsString(in.ops), progString(ths))
					scs = append(scs, sc)
				}
			}
		}
	}
	return scs
}

// ---- C06: collectors as threads ----

// reopenFinal: after quiescence, Flush + Close + reopen (rescan) must read the
// same as the quiescent final reads did.
func reopenFinal(w *World, s *Sched, recs []callRec, res *execResult) {
	if res.viol != nil {
		return
	}
	before := observeStore(w)
	if err := w.S.Flush(); err != nil {
		res.viol = viol("call-error", "Flush after quiescence: %v", err)
		res.viol.Culprit = "err:" + err.Error()
		return
	}
	if err := w.Close(); err != nil {
		res.viol = viol("call-error", "Close after quiescence: %v", err)
		return
	}
	w.FS.RemoveRaw(idxPath + ".buckets")
	if err := w.Open(); err != nil {
		res.viol = viol("open-error", "reopen after quiescence: %v", err)
		return
	}
	after := observeStore(w)
	for i := range before {
		if before[i] != after[i] {
			res.viol = viol("key-lost", "after Flush+Close+reopen a read changed: %s became %s", before[i], after[i])
			if strings.Contains(before[i], ":false:") {
				res.viol.Symptom = "key-resurrected"
			}
			return
		}
	}
}

func c06Scenarios(tier string) []*ConcScenario {
	G1 := namedInit{"G1-overwrites", []Op{P(0, 1), opF, P(1, 1), opF, P(4, 1), opF, P(0, 2), opF, P(1, 2), opF}}
	G2 := namedInit{"G2-removes", []Op{P(0, 1), opF, P(1, 1), opF, P(4, 1), opF, R(0), opF, P(0, 2), opF}}
	G3 := namedInit{"G3-mixed-reopened", []Op{P(0, 1), P(1, 1), opF, P(0, 2), opF, R(1), opF, P(4, 1), opF, {Kind: OpReopen, A: 0}, P(1, 2), opF}}
	inits := []namedInit{G1, G2}
	gcs := [][]Op{
		{{Kind: OpIdxGC, B: true}},
		{{Kind: OpPriGC, A: 0}},
		{{Kind: OpPriGC, A: 85}},
	}
	callers := [][]Op{
		{G(0)},
		{G(1), Z(4)},
		{P(0, 3)},
		{R(1)},
		{P(0, 3), opF},
	}
	cfgs := []Config{cfg("mh", false, 8, 1, 1)}
	bound := 2
	if tier != "quick" {
		inits = append(inits, G3)
		cfgs = append(cfgs, cfg("mh", false, 8, 48, 48), cfg("mh", false, 8, 1, 48))
		gcs = append(gcs, []Op{{Kind: OpIdxGC, B: false}}, []Op{{Kind: OpIdxGC, B: true}, {Kind: OpPriGC, A: 0}})
		callers = append(callers, []Op{H(1), G(0)}, []Op{R(0), P(0, 3)})
	}
	var scs []*ConcScenario
	// three threads: a reader, a flush that supersedes what the reader is
	// about to read, and the collector that reaps the superseded data
	G1u := namedInit{"G1-overwrites+unflushed", append(append([]Op{}, G1.ops...), P(0, 3), P(1, 3))}
	for _, c := range cfgs {
		for _, gc := range gcs {
			rds := [][]Op{{G(0)}}
			if tier != "quick" {
				rds = append(rds, []Op{Z(1)})
			}
			for _, rd := range rds {
				ths := [][]Op{gc, rd, {opF}}
				sc := &ConcScenario{Prop: "C06", Cfg: c, Init: G1u.ops, Threads: ths, Bound: bound, Exec: execStore,
					Extra: map[string]any{"final": reopenFinal}}
				sc.Name = fmt.Sprintf("c06/%s/%s/%s", c.String(), G1u.name, progString(ths))
				sc.Desc = fmt.Sprintf("init %s [%s]; %s", G1u.name, opsString(G1u.ops), progString(ths))
				scs = append(scs, sc)
			}
			// the reader's bucket is not in any pool: it holds a disk position
			ths := [][]Op{gc, {G(4)}, {P(4, 3), opF}}
			sc := &ConcScenario{Prop: "C06", Cfg: c, Init: G1.ops, Threads: ths, Bound: bound, Exec: execStore,
				Extra: map[string]any{"final": reopenFinal}}
			sc.Name = fmt.Sprintf("c06/%s/%s/%s", c.String(), G1.name, progString(ths))
			sc.Desc = fmt.Sprintf("init %s [%s]; %s", G1.name, opsString(G1.ops), progString(ths))
			scs = append(scs, sc)
		}
	}
	for _, c := range cfgs {
		for _, in := range inits {
			for _, gc := range gcs {
				for _, cl := range callers {
					ths := [][]Op{gc, cl}
					sc := &ConcScenario{Prop: "C06", Cfg: c, Init: in.ops, Threads: ths, Bound: bound, Exec: execStore,
						Extra: map[string]any{"final": reopenFinal}}
					sc.Name = fmt.Sprintf("c06/%s/%s/%s", c.String(), in.name, progString(ths))
					sc.Desc = fmt.Sprintf("init %s [%s]; %s", in.name, opsString(in.ops), progString(ths))
					scs = append(scs, sc)
				}
			}
		}
	}
	return scs
}


// ---- C12: back-pressure ----

func c12Scenarios(tier string) []*ConcScenario {
	c := cfg("mh", false, 8, bigFile, bigFile)
	type prog struct {
		name string
		init []Op
		ths  [][]Op
	}
	progs := []prog{
		{"single-writer", nil, [][]Op{{P(0, 1)}}},
		{"writer+remove", []Op{P(1, 1)}, [][]Op{{P(0, 1)}, {R(1)}}},
		{"writer+explicit-flush", nil, [][]Op{{P(0, 1)}, {opF}}},
		{"two-writers", nil, [][]Op{{P(0, 1)}, {P(4, 1)}}},
	}
	bound, ticks := 2, 2
	if tier != "quick" {
		bound, ticks = 3, 3
		progs = append(progs,
			prog{"two-writers+flush", nil, [][]Op{{P(0, 1)}, {P(1, 1)}, {opF}}},
			prog{"writer-twice", nil, [][]Op{{P(0, 1), P(0, 2)}}},
		)
	}
	var scs []*ConcScenario
	for pi, p := range progs {
		for _, selDesc := range []bool{false, true} {
			if tier == "quick" && (pi == 1 || (selDesc && pi != 0)) {
				continue
			}
			cc := c
			cc.SelDesc = selDesc
			ticks := ticks
			if tier == "quick" && pi != 0 {
				ticks = 1
			}
			sc := &ConcScenario{Prop: "C12", Cfg: cc, Init: p.init, Threads: p.ths, Bound: bound, Ticks: ticks, Tick: int64(time.Second), Exec: execStore,
				Extra: map[string]any{"sync": time.Second, "burst": 1, "flushRate": 1.0, "flusher": true, "fair": true}}
			sc.Name = fmt.Sprintf("c12/%s/seldesc=%v", p.name, selDesc)
			sc.Desc = fmt.Sprintf("real flusher goroutine (sync interval 1s, burst rate 1, flush rate preset so that writers wait), %d ticks, select priority desc=%v; init [%s]; %s", ticks, selDesc, opsString(p.init), progString(p.ths))
			scs = append(scs, sc)
		}
	}
	return scs
}
