package harness

import (
	"bytes"
	"context"
	"crypto/sha256"
	"errors"
	"fmt"
	"strings"

	blocks "github.com/ipfs/go-block-format"
	"github.com/ipfs/go-cid"
	ipld "github.com/ipfs/go-ipld-format"
	storethehash "github.com/ipld/go-storethehash"
	"github.com/ipld/go-storethehash/store"
	"github.com/ipld/go-storethehash/verifshim/vos"
	"github.com/multiformats/go-multihash"
)

// C15: the blockstore adapter against a reference blockstore, all call
// histories up to a depth over an alphabet of blocks and CID variants.

type bsBlock struct {
	name string
	data []byte
	cids []cid.Cid // variants addressing the same multihash
	bad  bool      // data does not hash to the CID (for hash-on-read)
}

type bsOpKind uint8

const (
	bsPut bsOpKind = iota + 1
	bsPutMany
	bsGet
	bsHas
	bsGetSize
	bsDelete
	bsHashOnRead
	bsReopen
)

type bsOp struct {
	Kind      bsOpKind `json:"k"`
	B         int      `json:"b"`            // block index
	B2        int      `json:"b2,omitempty"` // second block for PutMany
	C         int      `json:"c,omitempty"`  // CID variant
	On        bool     `json:"on,omitempty"`
	Cancelled bool     `json:"cancelled,omitempty"`
}

func (o bsOp) str(bl []bsBlock) string {
	cx := ""
	if o.Cancelled {
		cx = "!ctx"
	}
	switch o.Kind {
	case bsPut:
		return fmt.Sprintf("Put%s(%s/c%d)", cx, bl[o.B].name, o.C)
	case bsPutMany:
		return fmt.Sprintf("PutMany%s(%s,%s)", cx, bl[o.B].name, bl[o.B2].name)
	case bsGet:
		return fmt.Sprintf("Get%s(%s/c%d)", cx, bl[o.B].name, o.C)
	case bsHas:
		return fmt.Sprintf("Has%s(%s/c%d)", cx, bl[o.B].name, o.C)
	case bsGetSize:
		return fmt.Sprintf("GetSize%s(%s/c%d)", cx, bl[o.B].name, o.C)
	case bsDelete:
		return fmt.Sprintf("Delete%s(%s/c%d)", cx, bl[o.B].name, o.C)
	case bsHashOnRead:
		return fmt.Sprintf("HashOnRead(%v)", o.On)
	case bsReopen:
		return "Close;Reopen"
	}
	return "?"
}

func mustSum(data []byte, code uint64) multihash.Multihash {
	h, err := multihash.Sum(data, code, -1)
	if err != nil {
		panic(err)
	}
	return h
}

// collidingData finds two short strings whose sha2-256 digests share the first
// two bytes: the same bucket under an 8-bit index and the same first byte of
// the stored key, so that with only one of them stored a lookup of the other
// resolves to the stored one's record and only the comparison of the full keys
// tells them apart — found by enumeration, not chance (memoised).
var collidingMemo [2][]byte

func collidingData() ([]byte, []byte) {
	if collidingMemo[0] != nil {
		return collidingMemo[0], collidingMemo[1]
	}
	seen := map[[2]byte][]byte{}
	for i := 0; ; i++ {
		d := []byte(fmt.Sprintf("blk%d", i))
		s := sha256.Sum256(d)
		k := [2]byte{s[0], s[1]}
		if o, ok := seen[k]; ok {
			collidingMemo = [2][]byte{o, d}
			return o, d
		}
		seen[k] = d
	}
}

func bsBlocks() []bsBlock {
	mk := func(name string, data []byte) bsBlock {
		h := mustSum(data, multihash.SHA2_256)
		return bsBlock{name: name, data: data, cids: []cid.Cid{cid.NewCidV0(h), cid.NewCidV1(cid.DagProtobuf, h), cid.NewCidV1(cid.Raw, h)}}
	}
	d1, d2 := collidingData()
	bl := []bsBlock{
		mk("empty", []byte{}),
		mk("x1", d1),
		mk("x2", d2),
		mk("big", bytes.Repeat([]byte("0123456789"), 4)),
	}
	h512 := mustSum([]byte("s512"), multihash.SHA2_512)
	bl = append(bl, bsBlock{name: "s512", data: []byte("s512"), cids: []cid.Cid{cid.NewCidV1(cid.Raw, h512), cid.NewCidV1(cid.DagCBOR, h512)}})
	hid := mustSum([]byte("ident-data"), multihash.IDENTITY)
	bl = append(bl, bsBlock{name: "ident", data: []byte("ident-data"), cids: []cid.Cid{cid.NewCidV1(cid.Raw, hid)}})
	// a block whose bytes do not hash to its CID
	hb := mustSum([]byte("the-real-data"), multihash.SHA2_256)
	bl = append(bl, bsBlock{name: "bad", data: []byte("other-data"), cids: []cid.Cid{cid.NewCidV1(cid.Raw, hb), cid.NewCidV0(hb)}, bad: true})
	return bl
}

type bsWorld struct {
	fs     *vos.MemFS
	bs     *storethehash.HashedBlockstore
	blocks []bsBlock
	model  map[string][]byte // by multihash
	hor    bool
	bits   uint8
}

func newBsWorld(bits uint8, fsz uint32) (*bsWorld, error) {
	w := &bsWorld{fs: vos.NewMemFS(), blocks: bsBlocks(), model: map[string][]byte{}, bits: bits}
	w.fs.MkdirRaw("/s")
	w.fs.StartLog(false)
	vos.SetBackend(w.fs)
	return w, w.open(fsz)
}

func (w *bsWorld) open(fsz uint32) error {
	bs, err := storethehash.OpenHashedBlockstore(context.Background(), idxPath, dataPath,
		store.IndexBitSize(w.bits), store.IndexFileSize(fsz), store.PrimaryFileSize(fsz), store.GCInterval(0))
	if err != nil {
		return err
	}
	w.bs = bs
	return nil
}

func (w *bsWorld) step(o bsOp, fsz uint32) *Violation {
	ctx := context.Background()
	if o.Cancelled {
		c, cancel := context.WithCancel(ctx)
		cancel()
		ctx = c
	}
	b := w.blocks[o.B]
	var c cid.Cid
	if o.Kind != bsHashOnRead && o.Kind != bsReopen {
		c = b.cids[o.C%len(b.cids)]
	}
	key := string(c.Hash())
	logBefore := w.fs.LogLen()
	cancelled := func(err error, what string) *Violation {
		if !errors.Is(err, context.Canceled) {
			return viol("wrong-return", "%s with a cancelled context returned %v, want context.Canceled", what, err)
		}
		if w.fs.LogLen() != logBefore {
			return viol("wrong-return", "%s with a cancelled context touched the file system", what)
		}
		return nil
	}
	switch o.Kind {
	case bsPut:
		blk, err := blocks.NewBlockWithCid(b.data, c)
		if err != nil {
			panic(err)
		}
		err = w.bs.Put(ctx, blk)
		if o.Cancelled {
			return cancelled(err, "Put")
		}
		if err != nil {
			return viol("call-error", "Put(%s): %v", b.name, err)
		}
		if _, ok := w.model[key]; !ok {
			w.model[key] = b.data
		}
	case bsPutMany:
		b2 := w.blocks[o.B2]
		c2 := b2.cids[0]
		blk1, _ := blocks.NewBlockWithCid(b.data, c)
		blk2, _ := blocks.NewBlockWithCid(b2.data, c2)
		err := w.bs.PutMany(ctx, []blocks.Block{blk1, blk2})
		if o.Cancelled {
			return cancelled(err, "PutMany")
		}
		if err != nil {
			return viol("call-error", "PutMany: %v", err)
		}
		if _, ok := w.model[key]; !ok {
			w.model[key] = b.data
		}
		if _, ok := w.model[string(c2.Hash())]; !ok {
			w.model[string(c2.Hash())] = b2.data
		}
	case bsGet:
		got, err := w.bs.Get(ctx, c)
		if o.Cancelled {
			return cancelled(err, "Get")
		}
		want, present := w.model[key]
		if !present {
			if !ipld.IsNotFound(err) {
				return viol("wrong-return", "Get of unknown %s returned (%v, %v), want the IPLD not-found error", b.name, got, err)
			}
			return nil
		}
		matches := false
		if chk, e := c.Prefix().Sum(want); e == nil && chk.Equals(c) {
			matches = true
		}
		if w.hor && !matches {
			if !errors.Is(err, blocks.ErrWrongHash) {
				return viol("wrong-return", "Get(%s) with hash-on-read enabled returned (%v, %v) for bytes that do not hash to the CID, want ErrWrongHash", b.name, got, err)
			}
			return nil
		}
		if err != nil {
			return viol("call-error", "Get(%s/c%d) hashOnRead=%v: %v", b.name, o.C, w.hor, err)
		}
		if !got.Cid().Equals(c) {
			return viol("wrong-return", "Get(%s) returned a block with CID %s, requested %s", b.name, got.Cid(), c)
		}
		if !bytes.Equal(got.RawData(), want) {
			return viol("wrong-value", "Get(%s) returned %q, stored %q", b.name, got.RawData(), want)
		}
	case bsHas:
		has, err := w.bs.Has(ctx, c)
		if o.Cancelled {
			return cancelled(err, "Has")
		}
		if err != nil {
			return viol("call-error", "Has(%s): %v", b.name, err)
		}
		if _, present := w.model[key]; has != present {
			return viol("wrong-return", "Has(%s/c%d) = %v, reference says %v", b.name, o.C, has, present)
		}
	case bsGetSize:
		sz, err := w.bs.GetSize(ctx, c)
		if o.Cancelled {
			return cancelled(err, "GetSize")
		}
		want, present := w.model[key]
		if !present {
			if !ipld.IsNotFound(err) {
				return viol("wrong-return", "GetSize of unknown %s returned (%d, %v), want the IPLD not-found error", b.name, sz, err)
			}
			return nil
		}
		if err != nil {
			return viol("call-error", "GetSize(%s): %v", b.name, err)
		}
		if sz != len(want) {
			return viol("wrong-return", "GetSize(%s/c%d) = %d, stored block has %d bytes", b.name, o.C, sz, len(want))
		}
	case bsDelete:
		err := w.bs.DeleteBlock(ctx, c)
		if o.Cancelled {
			return cancelled(err, "DeleteBlock")
		}
		if err != nil {
			return viol("call-error", "DeleteBlock(%s): %v", b.name, err)
		}
		delete(w.model, key)
	case bsHashOnRead:
		w.bs.HashOnRead(o.On)
		w.hor = o.On
	case bsReopen:
		w.bs.Close()
		if err := w.open(fsz); err != nil {
			return viol("open-error", "reopen: %v", err)
		}
		w.hor = false
	}
	return nil
}

func (w *bsWorld) final() *Violation {
	for bi, b := range w.blocks {
		for ci := range b.cids {
			for _, k := range []bsOpKind{bsGet, bsHas, bsGetSize} {
				if v := w.step(bsOp{Kind: k, B: bi, C: ci}, 0); v != nil {
					return v
				}
			}
		}
	}
	return nil
}

func bsAlphabet(tier string) []bsOp {
	var a []bsOp
	// blocks: 0 empty, 1 x1, 2 x2 (same bucket as x1), 3 big, 4 s512, 5 ident, 6 bad
	for _, b := range []int{0, 1, 2} {
		a = append(a, bsOp{Kind: bsPut, B: b, C: 0})
	}
	a = append(a,
		bsOp{Kind: bsPut, B: 1, C: 2},
		bsOp{Kind: bsPut, B: 6, C: 0},
		bsOp{Kind: bsPutMany, B: 3, B2: 5},
		bsOp{Kind: bsPutMany, B: 1, B2: 3},
		bsOp{Kind: bsPut, B: 1, C: 0, Cancelled: true},
		bsOp{Kind: bsGet, B: 1, C: 1},
		bsOp{Kind: bsGet, B: 6, C: 0},
		bsOp{Kind: bsGet, B: 1, C: 0, Cancelled: true},
		bsOp{Kind: bsHas, B: 2, C: 2},
		bsOp{Kind: bsGetSize, B: 0, C: 1},
		bsOp{Kind: bsDelete, B: 1, C: 1},
		bsOp{Kind: bsDelete, B: 0, C: 0},
		bsOp{Kind: bsDelete, B: 2, C: 0, Cancelled: true},
		bsOp{Kind: bsHashOnRead, On: true},
		bsOp{Kind: bsHashOnRead, On: false},
		bsOp{Kind: bsReopen},
	)
	if tier != "quick" {
		a = append(a,
			bsOp{Kind: bsPut, B: 4, C: 1},
			bsOp{Kind: bsPutMany, B: 1, B2: 2, Cancelled: true},
			bsOp{Kind: bsGet, B: 4, C: 0},
			bsOp{Kind: bsGetSize, B: 3, C: 2, Cancelled: true},
			bsOp{Kind: bsHas, B: 5, C: 0, Cancelled: true},
			bsOp{Kind: bsDelete, B: 6, C: 1},
		)
	}
	return a
}

func runC15(c *Collector) {
	tier := c.job.Tier
	depth := 4
	if tier != "quick" {
		depth = 5
	}
	alpha := bsAlphabet(tier)
	bl := bsBlocks()
	type bcfg struct {
		bits uint8
		fsz  uint32
	}
	cfgs := []bcfg{{8, 48}, {8, bigFile}}
	if tier != "quick" {
		cfgs = append(cfgs, bcfg{16, 1}, bcfg{12, 200})
	}
	unit := 0
	for _, bc := range cfgs {
		var hist []bsOp
		histStr := func() string {
			parts := make([]string, len(hist))
			for i, o := range hist {
				parts[i] = o.str(bl)
			}
			return strings.Join(parts, "; ")
		}
		run := func(record bool) bool {
			var v *Violation
			var w *bsWorld
			func() {
				defer func() {
					if r := recover(); r != nil {
						v = viol("panic", "panic: %v", r)
					}
				}()
				var err error
				w, err = newBsWorld(bc.bits, bc.fsz)
				if err != nil {
					v = viol("open-error", "open: %v", err)
					return
				}
				for _, o := range hist {
					if record {
						c.res.Transitions++
					}
					if v = w.step(o, bc.fsz); v != nil {
						return
					}
				}
				v = w.final()
			}()
			if w != nil && w.bs != nil {
				func() {
					defer func() { recover() }()
					w.bs.Close()
				}()
			}
			if record {
				c.res.Evaluations++
				if v == nil && w != nil {
					d := w.fs.Digest()
					c.state(d)
					if len(w.model) >= 2 {
						c.count("nontrivial", 1)
					}
					if c.res.Evaluations%3000 == 1 {
						c.sample(map[string]any{"bits": bc.bits, "file_size": bc.fsz, "history": histStr()})
					}
				}
				if v != nil {
					v.Property = "C15"
					v.Config = fmt.Sprintf("bits=%d/fs=%d", bc.bits, bc.fsz)
					v.History = histStr()
					v.Replay = map[string]any{"engine": "S-blockstore", "bits": bc.bits, "file_size": bc.fsz, "ops": append([]bsOp{}, hist...)}
					c.violation(v, len(hist))
				}
			}
			return v != nil
		}
		var rec func(d int, mine bool)
		rec = func(d int, mine bool) {
			if c.expired() {
				return
			}
			if d <= 2 {
				mine = unit%c.job.NShards == c.job.Shard
				unit++
			}
			failed := false
			if d > 0 {
				if mine {
					failed = run(true)
				} else if d <= 2 {
					failed = run(false)
				}
			}
			if d == depth || failed {
				return
			}
			for _, o := range alpha {
				hist = append(hist, o)
				rec(d+1, mine)
				hist = hist[:len(hist)-1]
			}
		}
		rec(0, false)
	}
	c.res.Engine = "S (sequential history enumerator) on HashedBlockstore with a reference blockstore"
	c.res.Bound = fmt.Sprintf("all call histories of <= %d ops over %d alphabet members x %d configurations", depth, len(alpha), len(cfgs))
	c.res.Rule = "alphabet: Put/PutMany/Get/Has/GetSize/DeleteBlock with CIDv0/v1 dag-pb/raw variants of the same multihash, sha2-512 and identity blocks, a mismatched block, cancelled contexts, HashOnRead(true|false), Close+reopen; every history ends with Get/Has/GetSize of every block under every CID variant; non-trivial = at least two blocks stored at the end"
}
