package harness

import (
	"context"
	"sync"
	"unsafe"
	"fmt"
	"os"
	"path/filepath"
	"runtime"
	"strings"
	"testing"
	"time"

	"github.com/ipld/go-storethehash/store"
	mhprimary "github.com/ipld/go-storethehash/store/primary/multihash"
	"github.com/ipld/go-storethehash/verifshim/vhook"
	"github.com/ipld/go-storethehash/verifshim/vos"
)

// Engine R — the schedule enumerator of engine A rebuilt for `-race` runs.
// Threads and scheduler hand the turn over through plain memory that is only
// touched inside //go:norace functions (plus runtime.Gosched), so the race
// detector sees none of it: the only happens-before edges it records are the
// program's own (its mutexes inside vsync, its channels, its go statements).
// Along every enumerated schedule Go's race runtime is then an exact
// vector-clock check of the accesses of that execution. The store runs on the
// real file system (MemFS's own lock would order all file-system callers and
// blind the detector), without synctest.

const rMaxThreads = 8
const rMaxLocks = 64

type rthread struct {
	goid   int64
	state  int32 // 0 running, 1 at point, 2 done, 3 blocked natively (channel)
	kind   vhook.Kind
	obj    uintptr
	path   string
	write  bool
	resume int32
	name   string
}

type rlock struct {
	obj     uintptr
	writer  int32 // thread index + 1, 0 = none
	readers int32
}

type RSched struct {
	threads  [rMaxThreads]rthread
	nthreads int
	locks    [rMaxLocks]rlock
	nlocks   int
	current  int
	trace    schedTrace
	aborted  string
	step     int
	rootGoid int64
}

//go:norace
func (s *RSched) find(g int64) int {
	for i := 0; i < s.nthreads; i++ {
		if s.threads[i].goid == g {
			return i
		}
	}
	return -1
}

//go:norace
func (s *RSched) lockOf(obj uintptr) *rlock {
	for i := 0; i < s.nlocks; i++ {
		if s.locks[i].obj == obj {
			return &s.locks[i]
		}
	}
	if s.nlocks == rMaxLocks {
		panic("engine R: lock table full")
	}
	s.locks[s.nlocks].obj = obj
	s.nlocks++
	return &s.locks[s.nlocks-1]
}

func objID(obj any) uintptr {
	// the pointer identity of the mutex; eface data word
	type eface struct {
		typ, data uintptr
	}
	return (*eface)(unsafe.Pointer(&obj)).data
}

// Point implements vhook.Hooks.
//
//go:norace
func (s *RSched) Point(op vhook.Op) {
	g := goid()
	i := s.find(g)
	if i < 0 {
		return // not a controlled thread (set-up, background goroutines)
	}
	t := &s.threads[i]
	t.kind = op.Kind
	t.obj = 0
	if op.Obj != nil {
		t.obj = objID(op.Obj)
	}
	t.path = op.Path
	t.write = op.Write
	t.state = 1
	for t.resume == 0 {
		runtime.Gosched()
	}
	t.resume = 0
}

// Acquired implements vhook.Hooks.
//
//go:norace
func (s *RSched) Acquired(obj any, excl bool) {
	i := s.find(goid())
	if i < 0 {
		return
	}
	l := s.lockOf(objID(obj))
	if excl {
		l.writer = int32(i + 1)
	} else {
		l.readers++
	}
}

// Released implements vhook.Hooks.
//
//go:norace
func (s *RSched) Released(obj any, excl bool) {
	i := s.find(goid())
	if i < 0 {
		return
	}
	l := s.lockOf(objID(obj))
	if excl {
		l.writer = 0
	} else if l.readers > 0 {
		l.readers--
	}
}

//go:norace
func (s *RSched) admissible(t *rthread) bool {
	switch t.kind {
	case vhook.KLock:
		l := s.lockOf(t.obj)
		return l.writer == 0 && l.readers == 0
	case vhook.KRLock:
		return s.lockOf(t.obj).writer == 0
	}
	return true
}

//go:norace
func (s *RSched) opString(t *rthread) string {
	switch t.kind {
	case vhook.KLock, vhook.KRLock:
		for i := 0; i < s.nlocks; i++ {
			if s.locks[i].obj == t.obj {
				return fmt.Sprintf("%s:L%d", t.kind, i+1)
			}
		}
		return t.kind.String()
	case vhook.KFS:
		return "fs:" + filepath.Base(t.path)
	}
	return t.kind.String()
}

// spawn registers and starts a controlled thread.
func (s *RSched) spawn(name string, body func()) {
	idx := s.nthreads
	s.nthreads++
	s.threads[idx].name = name
	started := make(chan struct{})
	go func() {
		s.setGoid(idx, goid())
		close(started)
		s.Point(vhook.Op{Kind: vhook.KStart})
		body()
		s.markDone(idx)
	}()
	<-started
}

//go:norace
func (s *RSched) setGoid(i int, g int64) { s.threads[i].goid = g }

//go:norace
func (s *RSched) markDone(i int) { s.threads[i].state = 2 }

//go:norace
func (s *RSched) quiescent() (allParkedOrDone bool, pending int) {
	allParkedOrDone = true
	for i := 0; i < s.nthreads; i++ {
		switch s.threads[i].state {
		case 0:
			allParkedOrDone = false
		case 1, 3:
			pending++
		}
	}
	return
}

// goroutineStatuses parses runtime.Stack(all) into goroutine id -> status.
func goroutineStatuses() map[int64]string {
	buf := make([]byte, 1<<18)
	n := runtime.Stack(buf, true)
	out := map[int64]string{}
	for _, blk := range strings.Split(string(buf[:n]), "\n\n") {
		if !strings.HasPrefix(blk, "goroutine ") {
			continue
		}
		rest := blk[len("goroutine "):]
		sp := strings.IndexByte(rest, ' ')
		lb := strings.IndexByte(rest, '[')
		rb := strings.IndexByte(rest, ']')
		if sp < 0 || lb < 0 || rb < lb {
			continue
		}
		var id int64
		fmt.Sscanf(rest[:sp], "%d", &id)
		out[id] = rest[lb+1 : rb]
	}
	return out
}

func blockedStatus(st string) bool {
	return strings.HasPrefix(st, "chan receive") || strings.HasPrefix(st, "chan send") || strings.HasPrefix(st, "select") || strings.HasPrefix(st, "sync.WaitGroup") || strings.HasPrefix(st, "semacquire")
}

// settleNative classifies threads that neither park nor finish: a goroutine
// whose runtime status is a channel wait is blocked natively (state 3); a
// state-3 thread that has been woken is waited for until it parks again.
// It returns false while some thread is still in flight.
//
//go:norace
func (s *RSched) settleNative() bool {
	need := false
	for i := 0; i < s.nthreads; i++ {
		if s.threads[i].state == 0 || s.threads[i].state == 3 {
			need = true
		}
	}
	if !need {
		return true
	}
	sts := goroutineStatuses()
	settled := true
	for i := 0; i < s.nthreads; i++ {
		t := &s.threads[i]
		if t.state != 0 && t.state != 3 {
			continue
		}
		if blockedStatus(sts[t.goid]) {
			t.state = 3
		} else {
			// running or runnable: in flight towards its next point
			if t.state == 3 {
				t.state = 0
			}
			settled = false
		}
	}
	return settled
}

//go:norace
func (s *RSched) hasNative() bool {
	for i := 0; i < s.nthreads; i++ {
		if s.threads[i].state == 3 {
			return true
		}
	}
	return false
}

//go:norace
func (s *RSched) enabledList() (idx []int, names []string, sig string, runningOn bool) {
	var sb strings.Builder
	for i := 0; i < s.nthreads; i++ {
		t := &s.threads[i]
		if t.state == 1 && s.admissible(t) {
			idx = append(idx, i)
		}
	}
	if s.current >= 0 {
		for k, i := range idx {
			if i == s.current {
				copy(idx[1:k+1], idx[:k])
				idx[0] = i
				runningOn = true
				break
			}
		}
	}
	for _, i := range idx {
		names = append(names, s.threads[i].name)
		sb.WriteString(s.threads[i].name + "@" + s.opString(&s.threads[i]) + ";")
	}
	return idx, names, sb.String(), runningOn
}

//go:norace
func (s *RSched) resume(i int) {
	s.threads[i].state = 0
	s.threads[i].resume = 1
}

func (s *RSched) run(choose chooser) {
	vhook.Install(s)
	defer vhook.Install(nil)
	s.current = -1
	deadline := time.Now().Add(20 * time.Second)
	for {
		spins := 0
		for {
			ok, _ := s.quiescent()
			if ok && (s.hasNative() == false || s.settleNative()) {
				break
			}
			runtime.Gosched()
			spins++
			if !ok && spins%200 == 0 && s.settleNative() {
				if ok2, _ := s.quiescent(); ok2 {
					break
				}
			}
			if time.Now().After(deadline) {
				s.aborted = "a thread neither parks nor blocks (engine R cannot schedule it)"
				return
			}
		}
		idx, names, sig, runningOn := s.enabledList()
		if len(idx) == 0 {
			_, pending := s.quiescent()
			if pending > 0 {
				s.aborted = "deadlock"
				if s.hasNative() {
					s.aborted = "blocked-native"
				}
			}
			return
		}
		d := decision{enabled: names, sig: fnv64(sig), runningOn: runningOn}
		n := len(s.trace.decisions)
		d.chosen = choose(&d, n)
		if d.chosen < 0 || d.chosen >= len(idx) {
			s.aborted = fmt.Sprintf("replay-divergence: decision %d has %d alternatives, choice %d", n, len(idx), d.chosen)
			return
		}
		s.trace.decisions = append(s.trace.decisions, d)
		th := idx[d.chosen]
		s.trace.steps = append(s.trace.steps, s.stepString(th))
		s.current = th
		s.step++
		s.resume(th)
	}
}

//go:norace
func (s *RSched) stepString(i int) string {
	return s.threads[i].name + " " + s.opString(&s.threads[i])
}

// releaseAll lets parked threads run freely (after an abort).
//
//go:norace
func (s *RSched) releaseAll() {
	for i := 0; i < s.nthreads; i++ {
		if s.threads[i].state == 1 {
			s.threads[i].state = 0
			s.threads[i].resume = 1
		}
	}
}

// ---- the store execution for engine R ----

var rDirCounter int

func execRace(t *testing.T, sc *ConcScenario, choose chooser) *execResult {
	res := &execResult{}
	vos.SetBackend(nil)
	setMapOrder(sc.Cfg)
	root := os.Getenv("VERIF_RACE_DIR")
	if root == "" {
		root = os.TempDir()
	}
	rDirCounter++
	dir := filepath.Join(root, fmt.Sprintf("r%d-%d", os.Getpid(), rDirCounter))
	if err := os.MkdirAll(dir, 0o755); err != nil {
		res.viol = viol("open-error", "mkdir: %v", err)
		return res
	}
	defer os.RemoveAll(dir)
	keys, _ := universe(sc.Cfg)
	opts := []store.Option{store.IndexBitSize(sc.Cfg.Bits), store.IndexFileSize(sc.Cfg.IdxFS), store.PrimaryFileSize(sc.Cfg.PriFS),
		store.GCInterval(1000 * time.Hour), store.GCTimeLimit(0), store.SyncInterval(1000 * time.Hour)}
	if b, ok := sc.Extra["burst"].(int); ok {
		opts = append(opts, store.BurstRate(uint64(b)))
	}
	st, err := store.OpenStore(context.Background(), sc.Cfg.primaryType(), filepath.Join(dir, "data"), filepath.Join(dir, "index"), sc.Cfg.Immutable, opts...)
	if err != nil {
		res.viol = viol("open-error", "open: %v", err)
		return res
	}
	defer st.Close()
	call := func(op Op) {
		defer func() { recover() }()
		switch op.Kind {
		case OpPut:
			st.Put(keys[op.K].Raw, values[op.V])
		case OpRemove:
			st.Remove(keys[op.K].Raw)
		case OpGet:
			st.Get(keys[op.K].Raw)
		case OpHas:
			st.Has(keys[op.K].Raw)
		case OpGetSize:
			st.GetSize(keys[op.K].Raw)
		case OpFlush:
			st.Flush()
		case OpIdxGC:
			st.Index().VerifGC(context.Background(), op.B)
		case OpPriGC:
			if mp, ok := st.Primary().(*mhprimary.MultihashPrimary); ok {
				mp.GC(context.Background(), int64(op.A))
			}
		case OpIterate:
			it := st.NewIterator()
			for i := 0; i < 100; i++ {
				if _, _, err := it.Next(); err != nil {
					break
				}
			}
		case OpReads: // storage-size queries and cache resizing
			st.StorageSize()
			st.IndexStorageSize()
			st.SetFileCacheSize(op.A)
		}
	}
	for _, op := range sc.Init {
		call(op)
	}
	if r, ok := sc.Extra["flushRate"].(float64); ok {
		st.VerifSetFlushRate(r)
	}
	s := &RSched{}
	// The final join is real synchronisation (as a caller would use before
	// Close): it orders everything the threads did before what follows.
	var join sync.WaitGroup
	for ti, prog := range sc.Threads {
		prog := prog
		join.Add(1)
		s.spawn(fmt.Sprintf("T%d", ti+1), func() {
			defer join.Done()
			for _, op := range prog {
				call(op)
			}
		})
	}
	s.run(choose)
	res.trace = s.trace
	res.aborted = s.aborted
	res.conflicts = 1
	res.outcome = "race-pass"
	if s.aborted == "blocked-native" {
		// a writer still waits for a flush notice: give it one (hooks are
		// uninstalled now, so this runs freely) and join
		for i := 0; i < 5; i++ {
			st.Primary().Put(keys[len(keys)-1].Raw, []byte("wake"))
			st.Flush()
			time.Sleep(5 * time.Millisecond)
		}
		s.aborted = ""
	}
	if s.aborted != "" {
		s.releaseAll()
		if strings.HasPrefix(s.aborted, "replay-divergence") {
			fmt.Fprintf(os.Stderr, "DIVERGENCE %s: %s\n", sc.Name, s.aborted)
			return res
		}
		// let the threads finish on their own so that the store can close
		time.Sleep(50 * time.Millisecond)
		res.aborted = ""
		res.outcome = "aborted:" + s.aborted
		res.incomplete = s.aborted
	}
	if s.aborted == "" {
		join.Wait()
	}
	// mark the end of this execution's race reports on stderr
	fmt.Fprintf(os.Stderr, "VERIF-EXEC-END scenario=%q choices=%v\n", sc.Name, choicesOf(s.trace.decisions))
	return res
}

func c16Scenarios(tier string) []*ConcScenario {
	base := cfg("mh", false, 8, 48, 48)
	tiny := cfg("mh", false, 8, 1, 1)
	G1 := []Op{P(0, 1), opF, P(1, 1), opF, P(4, 1), opF, P(0, 2), opF, P(1, 2), opF}
	sizeOps := Op{Kind: OpReads, A: 2}
	type prog struct {
		name string
		cfg  Config
		init []Op
		ths  [][]Op
	}
	progs := []prog{
		{"put-put-flush", base, []Op{P(0, 1), P(1, 1)}, [][]Op{{P(0, 2)}, {P(1, 2)}, {opF}}},
		{"update-pending-vs-get", base, []Op{P(0, 1), opF}, [][]Op{{P(0, 2), P(0, 3)}, {G(0), G(0)}}},
		{"put-newkey-flush", base, []Op{P(0, 1)}, [][]Op{{P(0, 2)}, {P(1, 2), P(4, 1)}, {opF}}},
		{"put-get-flush", base, []Op{P(0, 1), opF}, [][]Op{{P(0, 2), G(0)}, {G(0), H(1)}, {opF}}},
		{"remove-put-flush", base, []Op{P(0, 1), P(1, 1)}, [][]Op{{R(0)}, {P(4, 2), opF}, {Z(1)}}},
		{"indexgc-vs-callers", tiny, G1, [][]Op{{{Kind: OpIdxGC, B: true}}, {G(4), P(4, 3)}, {opF}}},
		{"primarygc-vs-callers", tiny, G1, [][]Op{{{Kind: OpPriGC, A: 0}}, {P(0, 3), opF}, {G(1)}}},
		{"sizes-vs-flush", tiny, G1, [][]Op{{sizeOps}, {P(0, 3), opF}, {{Kind: OpPriGC, A: 85}}}},
		{"iterate-vs-put", base, []Op{P(0, 1), P(4, 1), opF}, [][]Op{{{Kind: OpIterate}}, {P(1, 2), P(0, 3)}}},
	}
	cidc := cfg("cid", false, 8, 48, bigFile)
	progs = append(progs,
		prog{"cid-put-get-flush", cidc, []Op{P(0, 1), P(1, 1)}, [][]Op{{P(0, 2), G(1)}, {P(1, 2), H(0)}, {opF}}},
		prog{"remove-vs-reads-vs-indexgc", tiny, G1, [][]Op{{R(0), R(1)}, {G(0), Z(1), H(4)}, {{Kind: OpIdxGC, B: false}}}},
		prog{"iterate-vs-flush-vs-gc", tiny, G1, [][]Op{{{Kind: OpIterate}}, {P(4, 3), opF}, {{Kind: OpPriGC, A: 0}}}},
	)
	bp := prog{"backpressure-put-vs-flush", base, nil, [][]Op{{P(0, 1)}, {opF}, {P(4, 1)}}}
	progs = append(progs, bp)
	bound := 1
	if tier != "quick" {
		bound = 2
		progs = append(progs,
			prog{"both-gcs", tiny, G1, [][]Op{{{Kind: OpIdxGC, B: true}}, {{Kind: OpPriGC, A: 0}}, {P(4, 3), opF}}},
		)
	}
	var scs []*ConcScenario
	for _, p := range progs {
		sc := &ConcScenario{Prop: "C16", Cfg: p.cfg, Init: p.init, Threads: p.ths, Bound: bound, Exec: execRace, NoBubble: true}
		if strings.HasPrefix(p.name, "backpressure") {
			sc.Extra = map[string]any{"burst": 1, "flushRate": 1.0}
		}
		sc.Name = "c16/" + p.name
		sc.Desc = fmt.Sprintf("-race build, real file system; init [%s]; %s", opsString(p.init), progString(p.ths))
		scs = append(scs, sc)
	}
	return scs
}


// freeRunRace executes the same scenario bodies without any scheduler, many
// times, in the same -race binary: the guidance's "separate, free-running run
// of the same harness bodies". The enumerated schedules only switch threads
// at lock acquisitions and file-system calls; an access pair that conflicts
// *inside* such a segment (for instance a slice obtained under a lock and read
// after the unlock, against an in-place write) is only seen by the detector
// when the threads really run in parallel. Reports of this pass are real
// races (the detector has no false positives); its silence proves nothing.
func freeRunRace(c *Collector, scs []*ConcScenario, iterations int) {
	root := os.Getenv("VERIF_RACE_DIR")
	if root == "" {
		root = os.TempDir()
	}
	prev := runtime.GOMAXPROCS(4)
	defer runtime.GOMAXPROCS(prev)
	for si, sc := range scs {
		if si%c.job.NShards != c.job.Shard {
			continue
		}
		for it := 0; it < iterations && !c.expired(); it++ {
			vos.SetBackend(nil)
			setMapOrder(sc.Cfg)
			rDirCounter++
			dir := filepath.Join(root, fmt.Sprintf("f%d-%d", os.Getpid(), rDirCounter))
			os.MkdirAll(dir, 0o755)
			keys, _ := universe(sc.Cfg)
			opts := []store.Option{store.IndexBitSize(sc.Cfg.Bits), store.IndexFileSize(sc.Cfg.IdxFS), store.PrimaryFileSize(sc.Cfg.PriFS),
				store.GCInterval(1000 * time.Hour), store.GCTimeLimit(0), store.SyncInterval(1000 * time.Hour)}
			if b, ok := sc.Extra["burst"].(int); ok {
				opts = append(opts, store.BurstRate(uint64(b)))
			}
			st, err := store.OpenStore(context.Background(), sc.Cfg.primaryType(), filepath.Join(dir, "data"), filepath.Join(dir, "index"), sc.Cfg.Immutable, opts...)
			if err != nil {
				os.RemoveAll(dir)
				continue
			}
			call := raceCaller(st, keys)
			for _, op := range sc.Init {
				call(op)
			}
			if r, ok := sc.Extra["flushRate"].(float64); ok {
				st.VerifSetFlushRate(r)
			}
			var wg sync.WaitGroup
			done := make(chan struct{})
			for _, prog := range sc.Threads {
				prog := prog
				wg.Add(1)
				go func() {
					defer wg.Done()
					for rep := 0; rep < 150; rep++ {
						for _, op := range prog {
							call(op)
						}
					}
				}()
			}
			go func() { wg.Wait(); close(done) }()
			// a writer waiting for a flush notice is released by flushes
			tick := time.NewTicker(2 * time.Millisecond)
		wait:
			for {
				select {
				case <-done:
					break wait
				case <-tick.C:
					if sc.Extra["flushRate"] != nil {
						st.Primary().Put(keys[len(keys)-1].Raw, []byte("wake"))
						st.Flush()
					}
				}
			}
			tick.Stop()
			st.Close()
			os.RemoveAll(dir)
			c.res.Evaluations++
			c.count("free_running_race_executions", 1)
			fmt.Fprintf(os.Stderr, "VERIF-EXEC-END scenario=%q free-running iteration=%d\n", sc.Name, it)
		}
	}
}

func raceCaller(st *store.Store, keys []Key) func(op Op) {
	return func(op Op) {
		defer func() { recover() }()
		switch op.Kind {
		case OpPut:
			st.Put(keys[op.K].Raw, values[op.V])
		case OpRemove:
			st.Remove(keys[op.K].Raw)
		case OpGet:
			st.Get(keys[op.K].Raw)
		case OpHas:
			st.Has(keys[op.K].Raw)
		case OpGetSize:
			st.GetSize(keys[op.K].Raw)
		case OpFlush:
			st.Flush()
		case OpIdxGC:
			st.Index().VerifGC(context.Background(), op.B)
		case OpPriGC:
			if mp, ok := st.Primary().(*mhprimary.MultihashPrimary); ok {
				mp.GC(context.Background(), int64(op.A))
			}
		case OpIterate:
			it := st.NewIterator()
			for i := 0; i < 100; i++ {
				if _, _, err := it.Next(); err != nil {
					break
				}
			}
		case OpReads:
			st.StorageSize()
			st.IndexStorageSize()
			st.SetFileCacheSize(op.A)
		}
	}
}
