package harness

import (
	"fmt"
	"os"
	"testing"
	"testing/synctest"
)

// Explorer is the stateless depth-first search with iterative preemption
// bounding over the scheduler's decisions (CHESS style). An execution is
// identified by its choice sequence; every alternative at every decision after
// the replayed prefix spawns a new execution, as long as the number of
// preemptions (switching away from a thread that could have continued, a
// tick while a thread is enabled) stays within the bound.

// pendingLin is a linearizability check deferred until the bubble has ended
// (porcupine starts goroutines of its own).
type pendingLin struct {
	init   map[string]string
	recs   []callRec
	imm    bool
	onFail *Violation
}

type execResult struct {
	// incomplete: the execution could not be driven to its end (engine R:
	// a thread neither parked nor blocked within the deadline); the run is
	// then not exhaustive
	incomplete string
	pending    []pendingLin
	// crash: the execution's mutation log and call history, for the crash
	// enumeration that follows it (engine A+X)
	crash *crashJob
	trace     schedTrace
	aborted   string
	outcome   string // canonical observation vector of the execution
	viol      *Violation
	conflicts int
	steps     int
}

type ConcScenario struct {
	Prop   string
	Name   string
	Bound  int // preemption bound
	Ticks  int
	Tick   int64 // tick step in ns
	// Exec runs one execution under the given scheduler-choice function and
	// returns its result. It must be deterministic given the choices.
	Exec func(t *testing.T, sc *ConcScenario, choose chooser) *execResult
	Desc string
	// MaxExec caps the executions explored for this scenario (0 = none).
	MaxExec int64
	// NoBubble: the execution does not run inside a synctest bubble (engine R).
	NoBubble bool
	Cfg      Config
	Init     []Op
	Threads [][]Op
	Extra   map[string]any
}

type Explorer struct {
	t        *testing.T
	c        *Collector
	sc       *ConcScenario
	outcomes map[string]int64
	execs    int64
	capped   bool
	shard    int
	nshards  int
	unit     int
	// crashSeen deduplicates (crash image, allowed sets) across the
	// executions of one scenario
	crashSeen map[[40]byte]struct{}
	// crashOnly restricts the crash enumeration to one image (replay)
	crashOnly *replaySpec
}

func preemptionsBefore(ds []decision, i int) int {
	n := 0
	for j := 0; j < i && j < len(ds); j++ {
		if ds[j].chosen != 0 && ds[j].runningOn {
			n++
		}
	}
	return n
}

// runOne executes the scenario once following prefix, then default choices.
func (e *Explorer) runOne(prefix []int, parent []decision) *execResult {
	var res *execResult
	run := func(f func(t *testing.T)) {
		if e.sc.NoBubble {
			f(e.t)
			return
		}
		synctest.Test(e.t, f)
	}
	run(func(t *testing.T) {
		res = e.sc.Exec(t, e.sc, func(d *decision, idx int) int {
			if idx < len(prefix) {
				if parent != nil && idx < len(parent) && parent[idx].sig != d.sig {
					// the same choices must present the same alternatives
					return -1 - idx
				}
				return prefix[idx]
			}
			return 0
		})
	})
	return res
}

func (e *Explorer) explore(prefix []int, parent []decision, depth int) {
	if e.c.expired() || e.capped {
		return
	}
	// Sharding: executions at depth 0 and 1 (the default schedule and its
	// single deviations) are run by every shard, because their traces are
	// needed to enumerate the depth-2 subtrees, but recorded by one owner
	// only; every depth-2 subtree is explored by exactly one shard.
	mine := true
	if depth <= 2 {
		mine = e.unit%e.nshards == e.shard
		e.unit++
		if depth == 2 && !mine {
			return
		}
	}
	x := e.runOne(prefix, parent)
	if x != nil && x.viol == nil {
		for _, p := range x.pending {
			if !checkLinearizable(p.init, p.recs, p.imm) {
				x.viol = p.onFail
				break
			}
		}
	}
	if x == nil {
		e.c.res.InfraError = "execution returned no result"
		e.capped = true
		return
	}
	var crashViols []*Violation
	if x.viol == nil && x.crash != nil && mine {
		crashViols = e.crashCheck(x)
		if len(crashViols) > 0 {
			x.viol = crashViols[0]
		}
	}
	record := mine
	if x != nil && x.incomplete != "" {
		e.c.count("incomplete_executions", 1)
		if e.c.res.Exhaustive {
			e.c.res.Exhaustive = false
			e.c.res.CapsHit = append(e.c.res.CapsHit, "an execution could not be completed: "+x.incomplete)
		}
	}
	if record {
		e.execs++
		e.c.res.Evaluations++
		e.c.res.Transitions += int64(len(x.trace.decisions))
		e.outcomes[x.outcome]++
		e.c.stateKey(e.sc.Name + "|" + x.outcome)
		if x.conflicts > 0 {
			e.c.count("nontrivial", 1)
		}
		if e.execs%2000 == 1 {
			e.c.sample(map[string]any{"scenario": e.sc.Name, "choices": append([]int{}, choicesOf(x.trace.decisions)...), "steps": firstN(x.trace.steps, 60), "outcome": x.outcome})
		}
	}
	if len(x.aborted) > 17 && x.aborted[:17] == "replay-divergence" {
		e.c.res.InfraError = fmt.Sprintf("scenario %s: %s (prefix %v): nondeterminism not owned by the harness", e.sc.Name, x.aborted, prefix)
		e.capped = true
		return
	}
	viols := crashViols
	if len(viols) == 0 && x.viol != nil {
		viols = []*Violation{x.viol}
	}
	for _, v := range viols {
		if !record {
			break
		}
		v.Property = e.sc.Prop
		if v.Config == "" {
			v.Config = e.sc.Cfg.String()
		}
		v.History = e.sc.Desc
		rp := map[string]any{"engine": "A", "scenario": e.sc.Name, "choices": choicesOf(x.trace.decisions), "schedule": x.trace.steps}
		if x.crash != nil && v.Oracle == "crash" {
			rp["crash_before_mutation"] = v.crashAt
			rp["torn_bytes"] = v.crashTorn
		}
		v.Replay = rp
		e.c.violation(v, preemptionsBefore(x.trace.decisions, len(x.trace.decisions))*100000+len(x.trace.decisions))
	}
	if e.sc.MaxExec > 0 && e.execs >= e.sc.MaxExec {
		e.capped = true
		e.c.res.Exhaustive = false
		e.c.res.CapsHit = append(e.c.res.CapsHit, fmt.Sprintf("scenario %s: execution cap %d", e.sc.Name, e.sc.MaxExec))
		return
	}
	ds := x.trace.decisions
	for i := len(prefix); i < len(ds); i++ {
		d := ds[i]
		cost := preemptionsBefore(ds, i)
		if d.runningOn {
			cost++
		}
		if cost > e.sc.Bound {
			continue
		}
		for alt := 1; alt < len(d.enabled); alt++ {
			np := make([]int, i+1)
			for j := 0; j < i; j++ {
				np[j] = ds[j].chosen
			}
			np[i] = alt
			e.explore(np, ds, depth+1)
			if e.capped {
				return
			}
		}
	}
}

func choicesOf(ds []decision) []int {
	out := make([]int, len(ds))
	for i, d := range ds {
		out[i] = d.chosen
	}
	return out
}

func firstN(s []string, n int) []string {
	if len(s) > n {
		return s[:n]
	}
	return s
}

func runConcScenarios(t *testing.T, c *Collector, scs []*ConcScenario) {
	totalOutcomes := 0
	var curScenario *ConcScenario
	// An execution that leaves goroutines blocked for ever (a writer whose
	// notice channel was orphaned, a lock cycle) can never leave its synctest
	// bubble. The worker records the violation, writes its results and exits;
	// the rest of this shard's share is reported as not explored.
	abortProcessAfter = func(res *execResult) {
		if res.viol != nil && curScenario != nil {
			v := res.viol
			v.Property = curScenario.Prop
			if v.Config == "" {
				v.Config = curScenario.Cfg.String()
			}
			v.History = curScenario.Desc
			v.Replay = map[string]any{"engine": "A", "scenario": curScenario.Name, "choices": choicesOf(res.trace.decisions), "schedule": res.trace.steps}
			c.violation(v, len(res.trace.decisions))
		} else if res.viol == nil {
			c.res.InfraError = "execution cannot be completed: " + res.aborted
		}
		c.res.Evaluations++
		c.res.Exhaustive = false
		c.res.CapsHit = append(c.res.CapsHit, "worker stopped after an execution that blocks for ever (violation recorded)")
		c.finish()
		os.Exit(0)
	}
	// Iterative context bounding: in the thorough tier every scenario is
	// first explored completely with the quick tier's bound, then all of them
	// with one preemption more, and so on, so that a run ended by its time
	// budget has covered all scenarios uniformly and can say which bound it
	// completed for all of them.
	maxBound := 0
	for _, sc := range scs {
		if sc.Bound > maxBound {
			maxBound = sc.Bound
		}
	}
	startDelta := 0
	if c.job.Tier != "quick" {
		startDelta = 1
	}
	completed := -1
	for delta := startDelta; delta >= 0; delta-- {
		pass := true
		for si, sc := range scs {
			curScenario = sc
			if c.expired() {
				pass = false
				break
			}
			run := *sc
			run.Bound = sc.Bound - delta
			if run.Bound < 0 {
				run.Bound = 0
			}
			e := &Explorer{t: t, c: c, sc: &run, outcomes: map[string]int64{}, shard: c.job.Shard, nshards: c.job.NShards}
			// rotate ownership so that shards get different subtrees of different scenarios
			e.unit = si
			e.explore(nil, nil, 0)
			totalOutcomes += len(e.outcomes)
			c.count("distinct_outcomes", int64(len(e.outcomes)))
			if delta == 0 {
				c.count("execs:"+sc.Name, e.execs)
				if c.job.Shard == 0 {
					c.count("scenarios", 1)
				}
			}
			if c.res.InfraError != "" {
				return
			}
			if e.capped || c.expired() {
				pass = false
			}
		}
		if pass {
			completed = maxBound - delta
			c.res.Notes = append(c.res.Notes, fmt.Sprintf("shard %d completed every scenario with its bound minus %d (max preemption bound %d)", c.job.Shard, delta, maxBound-delta))
		}
	}
	_ = completed
	c.res.Engine = "A (controlled cooperative scheduler in a synctest bubble; stateless DFS with preemption bounding over lock acquisitions and file-system calls of the real code)"
}
