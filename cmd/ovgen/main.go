// ovgen generates a Go build overlay for the go-storethehash tree at -repo:
//
//   - every non-test .go file that imports "os", "sync" or "path/filepath" gets
//     those imports aliased to the shim packages verifshim/vos, verifshim/vsync
//     and verifshim/vfilepath (the file
//     body is untouched, line numbers are preserved);
//   - every `for k, v := range m` over a map with an ordered key type is
//     rewritten to iterate vhook.SortedKeys(m) (deterministic order owned by
//     the harness); map ranges that cannot be rewritten are reported;
//   - the shim packages under -shim are mapped into the repository's module
//     path as virtual packages.
//
// Nothing under -repo is modified. Output: <out>/overlay.json, <out>/files/...,
// and <out>/report.json (what was rewritten, what could not be).
package main

import (
	"encoding/json"
	"flag"
	"fmt"
	"go/ast"
	"go/build"
	"go/importer"
	"go/parser"
	"go/token"
	"go/types"
	"os"
	"path/filepath"
	"sort"
	"strings"
)

const modPath = "github.com/ipld/go-storethehash"

type edit struct {
	start, end int
	text       string
}

type fileInfo struct {
	path  string // absolute
	rel   string
	src   []byte
	ast   *ast.File
	edits []edit
	needV bool // needs vhook import
}

type report struct {
	RewrittenSelect []string `json:"rewritten_selects"`
	ChanPoints      []string `json:"channel_points_inserted"`
	UnownedSelect   []string `json:"unowned_multiway_selects"`
	Aliased         []string `json:"aliased_files"`
	RewrittenRange  []string `json:"rewritten_map_ranges"`
	UnownedRange    []string `json:"unowned_map_ranges"`
	TypeErrors      int      `json:"type_errors_ignored"`
	// UnownedImports: imports through which the code under test could reach
	// the file system, the clock or other processes without passing the shims
	UnownedImports []string `json:"unowned_environment_imports"`
}

type loader struct {
	repo  string
	fset  *token.FileSet
	pkgs  map[string]*types.Package // by import path
	files map[string][]*fileInfo    // by dir
	std   types.Importer
	rep   *report
	nerr  int
}

func (l *loader) Import(path string) (*types.Package, error) {
	if p, ok := l.pkgs[path]; ok {
		return p, nil
	}
	if path == modPath || strings.HasPrefix(path, modPath+"/") {
		dir := filepath.Join(l.repo, strings.TrimPrefix(strings.TrimPrefix(path, modPath), "/"))
		if fis, ok := l.files[dir]; ok {
			return l.check(path, fis), nil
		}
		p := types.NewPackage(path, filepath.Base(path))
		p.MarkComplete()
		l.pkgs[path] = p
		return p, nil
	}
	if !strings.Contains(strings.SplitN(path, "/", 2)[0], ".") {
		if p, err := l.std.Import(path); err == nil {
			l.pkgs[path] = p
			return p, nil
		}
	}
	// Third-party: a fake empty package is enough, only the shapes of the
	// repository's own map types are needed.
	p := types.NewPackage(path, filepath.Base(path))
	p.MarkComplete()
	l.pkgs[path] = p
	return p, nil
}

func (l *loader) check(path string, fis []*fileInfo) *types.Package {
	var files []*ast.File
	for _, fi := range fis {
		files = append(files, fi.ast)
	}
	info := &types.Info{Types: make(map[ast.Expr]types.TypeAndValue)}
	conf := types.Config{
		Importer:    l,
		Error:       func(error) { l.nerr++ },
		FakeImportC: true,
	}
	// Placeholder to break import cycles (there are none in practice).
	pkg, _ := conf.Check(path, l.fset, files, info)
	l.pkgs[path] = pkg
	for _, fi := range fis {
		l.rewriteRanges(fi, info)
	}
	return pkg
}

var rangeCtr int

// rewriteSelect turns a blocking multi-way select whose cases are all plain
// receives into a switch over vhook.SelectRecv (deterministic priority).
func (l *loader) rewriteSelect(fi *fileInfo, ss *ast.SelectStmt) {
	off := func(p token.Pos) int { return l.fset.Position(p).Offset }
	pos := l.fset.Position(ss.Pos())
	where := fmt.Sprintf("%s:%d", fi.rel, pos.Line)
	if len(ss.Body.List) < 2 {
		return
	}
	for _, c := range ss.Body.List {
		if c.(*ast.CommClause).Comm == nil && len(ss.Body.List) == 2 {
			// one case plus default: non-blocking and deterministic
			return
		}
	}
	var chans []string
	type caseEdit struct{ start, end int }
	var edits []caseEdit
	for _, c := range ss.Body.List {
		cc := c.(*ast.CommClause)
		if cc.Comm == nil {
			// has a default: non-blocking; deterministic only with one other
			// case, which is what the repository has
			if len(ss.Body.List) > 2 {
				l.rep.UnownedSelect = append(l.rep.UnownedSelect, where)
			}
			return
		}
		es, ok := cc.Comm.(*ast.ExprStmt)
		if !ok {
			l.rep.UnownedSelect = append(l.rep.UnownedSelect, where)
			return
		}
		ue, ok := es.X.(*ast.UnaryExpr)
		if !ok || ue.Op != token.ARROW {
			l.rep.UnownedSelect = append(l.rep.UnownedSelect, where)
			return
		}
		chans = append(chans, string(fi.src[off(ue.X.Pos()):off(ue.X.End())]))
		edits = append(edits, caseEdit{off(cc.Case), off(cc.Colon)})
	}
	fi.edits = append(fi.edits, edit{off(ss.Select), off(ss.Body.Lbrace) + 1, "switch vhook.SelectRecv(" + strings.Join(chans, ", ") + ") {"})
	for i, e := range edits {
		fi.edits = append(fi.edits, edit{e.start, e.end, fmt.Sprintf("case %d", i)})
	}
	fi.needV = true
	l.rep.RewrittenSelect = append(l.rep.RewrittenSelect, where)
}

// selectRewritable reports whether rewriteSelect turns ss into SelectRecv (a
// blocking multi-way select whose cases are all plain receives).
func selectRewritable(ss *ast.SelectStmt) bool {
	if len(ss.Body.List) < 2 {
		return false
	}
	for _, c := range ss.Body.List {
		cc := c.(*ast.CommClause)
		if cc.Comm == nil {
			return false
		}
		es, ok := cc.Comm.(*ast.ExprStmt)
		if !ok {
			return false
		}
		if ue, ok := es.X.(*ast.UnaryExpr); !ok || ue.Op != token.ARROW {
			return false
		}
	}
	return true
}

// chanPoints inserts vhook.ChanPoint(...) in front of every channel statement
// of a statement list.
func (l *loader) chanPoints(fi *fileInfo, info *types.Info, list []ast.Stmt) {
	isRecv := func(e ast.Expr) bool {
		ue, ok := e.(*ast.UnaryExpr)
		return ok && ue.Op == token.ARROW
	}
	for _, st := range list {
		what := ""
		switch x := st.(type) {
		case *ast.ExprStmt:
			if isRecv(x.X) {
				what = "recv"
			} else if ce, ok := x.X.(*ast.CallExpr); ok && len(ce.Args) == 1 {
				if id, ok := ce.Fun.(*ast.Ident); ok && id.Name == "close" {
					if tv, ok := info.Types[ce.Args[0]]; !ok || tv.Type == nil {
						what = "close"
					} else if _, isChan := tv.Type.Underlying().(*types.Chan); isChan {
						what = "close"
					}
				}
			}
		case *ast.SendStmt:
			what = "send"
		case *ast.AssignStmt:
			if len(x.Rhs) == 1 && isRecv(x.Rhs[0]) {
				what = "recv"
			}
		case *ast.SelectStmt:
			if !selectRewritable(x) {
				what = "select"
			}
		}
		if what == "" {
			continue
		}
		o := l.fset.Position(st.Pos()).Offset
		fi.edits = append(fi.edits, edit{o, o, fmt.Sprintf("vhook.ChanPoint(%q); ", what)})
		fi.needV = true
		l.rep.ChanPoints = append(l.rep.ChanPoints, fmt.Sprintf("%s:%d %s", fi.rel, l.fset.Position(st.Pos()).Line, what))
	}
}

func (l *loader) rewriteRanges(fi *fileInfo, info *types.Info) {
	ast.Inspect(fi.ast, func(n ast.Node) bool {
		switch b := n.(type) {
		case *ast.BlockStmt:
			l.chanPoints(fi, info, b.List)
		case *ast.CaseClause:
			l.chanPoints(fi, info, b.Body)
		case *ast.CommClause:
			l.chanPoints(fi, info, b.Body)
		}
		if ss, ok := n.(*ast.SelectStmt); ok {
			l.rewriteSelect(fi, ss)
			return true
		}
		rs, ok := n.(*ast.RangeStmt)
		if !ok {
			return true
		}
		tv, ok := info.Types[rs.X]
		if !ok || tv.Type == nil {
			return true
		}
		m, ok := tv.Type.Underlying().(*types.Map)
		if !ok {
			return true
		}
		pos := l.fset.Position(rs.Pos())
		where := fmt.Sprintf("%s:%d", fi.rel, pos.Line)
		b, ok := m.Key().Underlying().(*types.Basic)
		if !ok || b.Info()&types.IsOrdered == 0 || (rs.Tok != token.DEFINE && rs.Key != nil) {
			l.rep.UnownedRange = append(l.rep.UnownedRange, where)
			return true
		}
		off := func(p token.Pos) int { return l.fset.Position(p).Offset }
		xText := string(fi.src[off(rs.X.Pos()):off(rs.X.End())])
		rangeCtr++
		keyName := fmt.Sprintf("vhk%d", rangeCtr)
		if id, ok := rs.Key.(*ast.Ident); ok && id.Name != "_" {
			keyName = id.Name
		}
		okName := fmt.Sprintf("vhok%d", rangeCtr)
		var sb strings.Builder
		fmt.Fprintf(&sb, "for _, %s := range vhook.SortedKeys(%s) { ", keyName, xText)
		valName := "_"
		if id, ok := rs.Value.(*ast.Ident); ok && id.Name != "_" {
			valName = id.Name
		}
		if valName == "_" {
			fmt.Fprintf(&sb, "if _, %s := (%s)[%s]; !%s { continue }; ", okName, xText, keyName, okName)
		} else {
			fmt.Fprintf(&sb, "%s, %s := (%s)[%s]; if !%s { continue }; ", valName, okName, xText, keyName, okName)
		}
		fi.edits = append(fi.edits, edit{off(rs.For), off(rs.Body.Lbrace) + 1, sb.String()})
		fi.needV = true
		l.rep.RewrittenRange = append(l.rep.RewrittenRange, where)
		return true
	})
}

func main() {
	repo := flag.String("repo", "/repo", "repository root")
	shim := flag.String("shim", "/verif/shim", "shim source root")
	out := flag.String("out", "", "output directory")
	flag.Parse()
	if *out == "" {
		fmt.Fprintln(os.Stderr, "ovgen: -out required")
		os.Exit(2)
	}
	rep := &report{}
	l := &loader{
		repo:  *repo,
		fset:  token.NewFileSet(),
		pkgs:  make(map[string]*types.Package),
		files: make(map[string][]*fileInfo),
		std:   importer.ForCompiler(token.NewFileSet(), "source", nil),
		rep:   rep,
	}
	bctx := build.Default
	bctx.BuildTags = append(bctx.BuildTags, "verif")

	err := filepath.Walk(*repo, func(p string, st os.FileInfo, err error) error {
		if err != nil {
			return err
		}
		if st.IsDir() {
			name := st.Name()
			if p != *repo && (strings.HasPrefix(name, ".") || name == "testdata" || name == "vendor") {
				return filepath.SkipDir
			}
			if p != *repo {
				if _, e := os.Stat(filepath.Join(p, "go.mod")); e == nil {
					return filepath.SkipDir
				}
			}
			return nil
		}
		if !strings.HasSuffix(p, ".go") || strings.HasSuffix(p, "_test.go") {
			return nil
		}
		dir := filepath.Dir(p)
		if ok, _ := bctx.MatchFile(dir, filepath.Base(p)); !ok {
			return nil
		}
		src, err := os.ReadFile(p)
		if err != nil {
			return err
		}
		f, err := parser.ParseFile(l.fset, p, src, parser.ParseComments)
		if err != nil {
			return fmt.Errorf("parse %s: %w", p, err)
		}
		rel, _ := filepath.Rel(*repo, p)
		l.files[dir] = append(l.files[dir], &fileInfo{path: p, rel: rel, src: src, ast: f})
		return nil
	})
	if err != nil {
		fmt.Fprintln(os.Stderr, "ovgen:", err)
		os.Exit(2)
	}

	dirs := make([]string, 0, len(l.files))
	for d := range l.files {
		dirs = append(dirs, d)
	}
	sort.Strings(dirs)
	for _, d := range dirs {
		rel, _ := filepath.Rel(*repo, d)
		ip := modPath
		if rel != "." {
			ip = modPath + "/" + filepath.ToSlash(rel)
		}
		if _, done := l.pkgs[ip]; !done {
			l.check(ip, l.files[d])
		}
	}
	rep.TypeErrors = l.nerr

	overlay := map[string]string{}
	filesDir := filepath.Join(*out, "files")
	for _, d := range dirs {
		for _, fi := range l.files[d] {
			aliased := false
			var lastImport *ast.GenDecl
			for _, decl := range fi.ast.Decls {
				gd, ok := decl.(*ast.GenDecl)
				if !ok || gd.Tok != token.IMPORT {
					continue
				}
				lastImport = gd
				for _, spec := range gd.Specs {
					is := spec.(*ast.ImportSpec)
					var repl string
					switch is.Path.Value {
					case `"os"`:
						repl = modPath + "/verifshim/vos"
					case `"sync"`:
						repl = modPath + "/verifshim/vsync"
					case `"path/filepath"`:
						repl = modPath + "/verifshim/vfilepath"
					case `"io/ioutil"`, `"os/exec"`, `"syscall"`, `"golang.org/x/sys/unix"`, `"io/fs"`, `"net"`, `"net/http"`, `"unsafe"`, `"sync/atomic"`:
						// sync/atomic is listed for information only: atomics are
						// not scheduling points of engine A (none in the pinned tree)
						rep.UnownedImports = append(rep.UnownedImports, fi.rel+": "+strings.Trim(is.Path.Value, `"`))
						continue
					default:
						continue
					}
					name := strings.Trim(is.Path.Value, `"`)
					if i := strings.LastIndex(name, "/"); i >= 0 {
						name = name[i+1:]
					}
					if is.Name != nil {
						name = is.Name.Name
					}
					s := l.fset.Position(is.Pos()).Offset
					e := l.fset.Position(is.End()).Offset
					fi.edits = append(fi.edits, edit{s, e, fmt.Sprintf("%s %q", name, repl)})
					aliased = true
				}
			}
			if fi.needV {
				imp := fmt.Sprintf("vhook %q", modPath+"/verifshim/vhook")
				if lastImport != nil && lastImport.Lparen.IsValid() {
					o := l.fset.Position(lastImport.Lparen).Offset + 1
					fi.edits = append(fi.edits, edit{o, o, " " + imp + ";"})
				} else if lastImport != nil {
					o := l.fset.Position(lastImport.End()).Offset
					fi.edits = append(fi.edits, edit{o, o, "; import " + imp})
				} else {
					o := l.fset.Position(fi.ast.Name.End()).Offset
					fi.edits = append(fi.edits, edit{o, o, "; import " + imp})
				}
			}
			if len(fi.edits) == 0 {
				continue
			}
			if aliased {
				rep.Aliased = append(rep.Aliased, fi.rel)
			}
			sort.Slice(fi.edits, func(i, j int) bool { return fi.edits[i].start < fi.edits[j].start })
			var sb strings.Builder
			prev := 0
			for _, e := range fi.edits {
				sb.Write(fi.src[prev:e.start])
				sb.WriteString(e.text)
				prev = e.end
			}
			sb.Write(fi.src[prev:])
			dst := filepath.Join(filesDir, fi.rel)
			if err := os.MkdirAll(filepath.Dir(dst), 0o755); err != nil {
				fmt.Fprintln(os.Stderr, "ovgen:", err)
				os.Exit(2)
			}
			if err := os.WriteFile(dst, []byte(sb.String()), 0o644); err != nil {
				fmt.Fprintln(os.Stderr, "ovgen:", err)
				os.Exit(2)
			}
			overlay[fi.path] = dst
		}
	}

	// Virtual shim packages.
	shimPkgs, _ := os.ReadDir(*shim)
	for _, sp := range shimPkgs {
		if !sp.IsDir() {
			continue
		}
		ents, _ := os.ReadDir(filepath.Join(*shim, sp.Name()))
		for _, e := range ents {
			if e.IsDir() || !strings.HasSuffix(e.Name(), ".go") || strings.HasSuffix(e.Name(), "_test.go") {
				continue
			}
			overlay[filepath.Join(*repo, "verifshim", sp.Name(), e.Name())] = filepath.Join(*shim, sp.Name(), e.Name())
		}
	}

	sort.Strings(rep.Aliased)
	sort.Strings(rep.RewrittenRange)
	sort.Strings(rep.UnownedRange)
	write := func(name string, v any) {
		data, _ := json.MarshalIndent(v, "", " ")
		if err := os.WriteFile(filepath.Join(*out, name), data, 0o644); err != nil {
			fmt.Fprintln(os.Stderr, "ovgen:", err)
			os.Exit(2)
		}
	}
	if err := os.MkdirAll(*out, 0o755); err != nil {
		fmt.Fprintln(os.Stderr, "ovgen:", err)
		os.Exit(2)
	}
	write("overlay.json", map[string]any{"Replace": overlay})
	write("report.json", rep)
}
