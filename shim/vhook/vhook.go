// Package vhook is the seam between the shimmed standard-library packages
// (vsync, vos) that the overlay injects into go-storethehash and the explorers
// in /verif/harness. It contains no policy: it only forwards "points" (places
// where a thread is about to take a lock or issue a file-system call) to
// whichever scheduler is currently installed, and it owns map-iteration order.
//
// This package is mapped into the repository's module path by the build
// overlay (github.com/ipld/go-storethehash/verifshim/vhook); nothing in /repo
// is modified.
package vhook

import (
	"cmp"
	"reflect"
	"slices"
	"sync/atomic"
)

// Kind classifies a scheduling point.
type Kind uint8

const (
	KStart  Kind = iota + 1 // a harness thread is about to begin
	KLock                   // exclusive acquire of a mutex
	KRLock                  // shared acquire of a RWMutex
	KFS                     // file-system call
	KYield                  // explicit yield (harness only)
	KTryLock                // non-blocking acquire attempt
	KChan                   // channel operation (send, receive, close, non-rewritten select)
)

func (k Kind) String() string {
	switch k {
	case KStart:
		return "start"
	case KLock:
		return "lock"
	case KRLock:
		return "rlock"
	case KFS:
		return "fs"
	case KYield:
		return "yield"
	case KTryLock:
		return "trylock"
	case KChan:
		return "chan"
	}
	return "?"
}

// Op describes the step a thread is about to take.
type Op struct {
	Kind  Kind
	Obj   any    // identity of the mutex (pointer) for lock kinds
	Name  string // FS call name ("OpenFile", "ReadAt", ...) or lock label
	Path  string // FS object the call resolves to (path or inode label)
	Write bool   // FS call mutates the object / namespace
}

// Hooks is implemented by the explorers' schedulers.
type Hooks interface {
	// Point is called by a thread immediately before it performs op. The
	// scheduler may park the caller here.
	Point(op Op)
	// Acquired / Released keep the scheduler's model of lock ownership exact.
	Acquired(obj any, excl bool)
	Released(obj any, excl bool)
}

type holder struct{ h Hooks }

var cur atomic.Pointer[holder]

// Install makes h the active scheduler (nil uninstalls).
func Install(h Hooks) {
	if h == nil {
		cur.Store(nil)
		return
	}
	cur.Store(&holder{h})
}

// Get returns the active scheduler or nil.
func Get() Hooks {
	p := cur.Load()
	if p == nil {
		return nil
	}
	return p.h
}

// Point forwards to the active scheduler, if any.
func Point(op Op) {
	if p := cur.Load(); p != nil {
		p.h.Point(op)
	}
}

// ChanPoint is inserted by the build overlay in front of every channel
// statement of the code under test (plain send / receive / close, and selects
// that are not rewritten to SelectRecv), so that the step between, say,
// registering for a notification and waiting for it can be interleaved.
func ChanPoint(what string) { Point(Op{Kind: KChan, Name: what}) }

// mapDesc selects descending key order for SortedKeys; the harness flips it
// to exercise the other legitimate iteration order of Go maps.
var mapDesc atomic.Bool

// SetMapOrderDesc selects descending (true) or ascending (false) order for
// every map range the overlay rewrote.
func SetMapOrderDesc(desc bool) { mapDesc.Store(desc) }

// SortedKeys returns the keys of m in a deterministic order. The overlay
// generator rewrites every `for k, v := range m` over a map with an ordered
// key type in the repository into a loop over SortedKeys(m), so that no
// behaviour depends on Go's randomised map iteration.
func SortedKeys[M ~map[K]V, K cmp.Ordered, V any](m M) []K {
	keys := make([]K, 0, len(m))
	for k := range m {
		keys = append(keys, k)
	}
	slices.Sort(keys)
	if mapDesc.Load() {
		slices.Reverse(keys)
	}
	return keys
}

// selectDesc selects the priority order SelectRecv uses when several cases
// are ready at once: ascending source order (false) or descending (true).
var selectDesc atomic.Bool

// SetSelectOrderDesc chooses the priority order of SelectRecv.
func SetSelectOrderDesc(desc bool) { selectDesc.Store(desc) }

// SelectRecv replaces a blocking `select` whose cases are all plain receives
// (`case <-ch:`), which is what every multi-way select in go-storethehash
// looks like. Go picks among several ready cases at random; that randomness
// would be nondeterminism the explorers do not own. SelectRecv polls the
// channels in a fixed priority order (which the harness flips between
// executions, so both orders are explored) and only blocks when none is
// ready, in which case the first event to arrive decides. It returns the index
// of the case whose receive completed.
func SelectRecv(chans ...any) int {
	n := len(chans)
	vals := make([]reflect.Value, n)
	for i := range chans {
		vals[i] = reflect.ValueOf(chans[i])
	}
	desc := selectDesc.Load()
	for k := 0; k < n; k++ {
		i := k
		if desc {
			i = n - 1 - k
		}
		if !vals[i].IsValid() || vals[i].IsNil() {
			continue
		}
		if x, _ := vals[i].TryRecv(); x.IsValid() {
			return i
		}
	}
	cases := make([]reflect.SelectCase, n)
	for i := range vals {
		cases[i] = reflect.SelectCase{Dir: reflect.SelectRecv}
		if vals[i].IsValid() && !vals[i].IsNil() {
			cases[i].Chan = vals[i]
		}
	}
	chosen, _, _ := reflect.Select(cases)
	return chosen
}
