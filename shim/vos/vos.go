// Package vos is a drop-in replacement for the parts of package os that
// go-storethehash uses. Calls are routed either to the real operating system
// (no backend installed) or to an in-memory file system (MemFS) that logs
// every mutation, keeps a descriptor ledger, and can be re-materialised at any
// prefix of its mutation log (crash images). Every call that can observe or
// change shared file-system state is announced to the scheduler in vhook
// first, so it is a scheduling point and a crash point without any edit to the
// repository's source.
//
// Mapped into the repository's module path by the build overlay as
// github.com/ipld/go-storethehash/verifshim/vos.
package vos

import (
	"io"
	"os"
	"path/filepath"
	"sync/atomic"
	"syscall"

	"github.com/ipld/go-storethehash/verifshim/vhook"
)

type (
	FileMode  = os.FileMode
	FileInfo  = os.FileInfo
	PathError = os.PathError
	LinkError = os.LinkError
	DirEntry  = os.DirEntry
)

const (
	O_RDONLY = os.O_RDONLY
	O_WRONLY = os.O_WRONLY
	O_RDWR   = os.O_RDWR
	O_APPEND = os.O_APPEND
	O_CREATE = os.O_CREATE
	O_EXCL   = os.O_EXCL
	O_SYNC   = os.O_SYNC
	O_TRUNC  = os.O_TRUNC

	ModePerm = os.ModePerm
	ModeDir  = os.ModeDir

	PathSeparator = os.PathSeparator
)

var (
	ErrClosed     = os.ErrClosed
	ErrNotExist   = os.ErrNotExist
	ErrExist      = os.ErrExist
	ErrInvalid    = os.ErrInvalid
	ErrPermission = os.ErrPermission

	IsNotExist   = os.IsNotExist
	IsExist      = os.IsExist
	IsPermission = os.IsPermission
	Getenv       = os.Getenv
	Getpid       = os.Getpid
	TempDir      = os.TempDir

	Stdout = os.Stdout
	Stderr = os.Stderr
)

var backend atomic.Pointer[MemFS]

// realRoot, if set, is prepended to every path when calls go to the real
// operating system, so that the harness can run the same absolute paths it
// uses on MemFS inside a scratch directory (shim-fidelity runs, engine R).
var realRoot atomic.Pointer[string]

// SetRealRoot sets (or, with "", clears) the directory under which absolute
// paths are placed when the real operating system is the backend.
func SetRealRoot(dir string) {
	if dir == "" {
		realRoot.Store(nil)
		return
	}
	realRoot.Store(&dir)
}

func rp(name string) string {
	if r := realRoot.Load(); r != nil && len(name) > 0 && name[0] == '/' {
		return *r + name
	}
	return name
}

// SetBackend installs fs as the file system behind this package (nil = the
// real operating system).
func SetBackend(fs *MemFS) { backend.Store(fs) }

// Backend returns the installed in-memory file system or nil.
func Backend() *MemFS { return backend.Load() }

// File mirrors *os.File for the methods the repository uses.
type File struct {
	real *os.File

	fs     *MemFS
	ino    *inode
	name   string
	flag   int
	pos    int64
	closed bool
	id     int
	site   string
}

func point(name, path string, write bool) {
	vhook.Point(vhook.Op{Kind: vhook.KFS, Name: name, Path: path, Write: write})
}

func OpenFile(name string, flag int, perm FileMode) (*File, error) {
	fs := backend.Load()
	write := flag&(O_CREATE|O_TRUNC) != 0
	if fs == nil {
		point("OpenFile", name, write)
		f, err := os.OpenFile(rp(name), flag, perm)
		if err != nil {
			return nil, err
		}
		return &File{real: f, name: name, flag: flag}, nil
	}
	point("OpenFile", cleanPath(name), write)
	return fs.openFile(name, flag, perm)
}

func Open(name string) (*File, error) { return OpenFile(name, O_RDONLY, 0) }

func Create(name string) (*File, error) {
	return OpenFile(name, O_RDWR|O_CREATE|O_TRUNC, 0666)
}

func ReadFile(name string) ([]byte, error) {
	f, err := Open(name)
	if err != nil {
		return nil, err
	}
	defer f.Close()
	var out []byte
	buf := make([]byte, 512)
	for {
		n, err := f.Read(buf)
		out = append(out, buf[:n]...)
		if err != nil {
			if err == io.EOF {
				return out, nil
			}
			return out, err
		}
	}
}

func WriteFile(name string, data []byte, perm FileMode) error {
	f, err := OpenFile(name, O_WRONLY|O_CREATE|O_TRUNC, perm)
	if err != nil {
		return err
	}
	_, err = f.Write(data)
	if err1 := f.Close(); err1 != nil && err == nil {
		err = err1
	}
	return err
}

func Stat(name string) (FileInfo, error) {
	fs := backend.Load()
	if fs == nil {
		point("Stat", name, false)
		return os.Stat(rp(name))
	}
	point("Stat", cleanPath(name), false)
	return fs.stat(name)
}

func Lstat(name string) (FileInfo, error) { return Stat(name) }

func Remove(name string) error {
	fs := backend.Load()
	if fs == nil {
		point("Remove", name, true)
		return os.Remove(rp(name))
	}
	point("Remove", cleanPath(name), true)
	return fs.remove(name)
}

func RemoveAll(name string) error {
	fs := backend.Load()
	if fs == nil {
		point("RemoveAll", name, true)
		return os.RemoveAll(rp(name))
	}
	point("RemoveAll", cleanPath(name), true)
	return fs.removeAll(name)
}

func Rename(oldpath, newpath string) error {
	fs := backend.Load()
	if fs == nil {
		point("Rename", oldpath, true)
		return os.Rename(rp(oldpath), rp(newpath))
	}
	point("Rename", cleanPath(oldpath), true)
	return fs.rename(oldpath, newpath)
}

func Truncate(name string, size int64) error {
	fs := backend.Load()
	if fs == nil {
		point("Truncate", name, true)
		return os.Truncate(rp(name), size)
	}
	point("Truncate", cleanPath(name), true)
	return fs.truncate(name, size)
}

func Mkdir(name string, perm FileMode) error {
	fs := backend.Load()
	if fs == nil {
		point("Mkdir", name, true)
		return os.Mkdir(rp(name), perm)
	}
	point("Mkdir", cleanPath(name), true)
	return fs.mkdir(name, false)
}

func MkdirAll(name string, perm FileMode) error {
	fs := backend.Load()
	if fs == nil {
		point("MkdirAll", name, true)
		return os.MkdirAll(rp(name), perm)
	}
	point("MkdirAll", cleanPath(name), true)
	return fs.mkdir(name, true)
}

func MkdirTemp(dir, pattern string) (string, error) {
	fs := backend.Load()
	if fs == nil {
		point("MkdirTemp", dir, true)
		d, err := os.MkdirTemp(rp(dir), pattern)
		if r := realRoot.Load(); err == nil && r != nil && len(d) > len(*r) && d[:len(*r)] == *r {
			d = d[len(*r):]
		}
		return d, err
	}
	point("MkdirTemp", cleanPath(dir), true)
	return fs.mkdirTemp(dir, pattern)
}

func ReadDir(name string) ([]DirEntry, error) {
	fs := backend.Load()
	if fs == nil {
		point("ReadDir", name, false)
		return os.ReadDir(rp(name))
	}
	point("ReadDir", cleanPath(name), false)
	return fs.readDir(name)
}

// Glob is filepath.Glob on the installed file system (used by the
// verifshim/vfilepath package, which replaces path/filepath in the repository
// under test so that no directory scan escapes the shim).
func Glob(pattern string) ([]string, error) {
	fs := backend.Load()
	if fs == nil {
		point("Glob", pattern, false)
		ms, err := filepath.Glob(rp(pattern))
		if r := realRoot.Load(); r != nil {
			for i, m := range ms {
				if len(m) > len(*r) && m[:len(*r)] == *r {
					ms[i] = m[len(*r):]
				}
			}
		}
		return ms, err
	}
	if _, err := filepath.Match(pattern, ""); err != nil {
		return nil, err
	}
	point("Glob", cleanPath(pattern), false)
	var out []string
	for _, p := range fs.allPaths() {
		if ok, _ := filepath.Match(cleanPath(pattern), p); ok {
			out = append(out, p)
		}
	}
	return out, nil
}

// WalkDir is filepath.WalkDir on the installed file system (lexical order).
func WalkDir(root string, fn func(path string, d DirEntry, err error) error) error {
	fs := backend.Load()
	if fs == nil {
		point("WalkDir", root, false)
		r := realRoot.Load()
		return filepath.WalkDir(rp(root), func(path string, d DirEntry, err error) error {
			if r != nil && len(path) >= len(*r) && path[:len(*r)] == *r {
				path = path[len(*r):]
			}
			return fn(path, d, err)
		})
	}
	info, err := Stat(root)
	if err != nil {
		return fn(root, nil, err)
	}
	return fs.walk(cleanPath(root), memDirEntry{memInfo{name: filepath.Base(root), dir: info.IsDir(), size: info.Size()}}, fn)
}

func (fs *MemFS) walk(path string, d DirEntry, fn func(path string, d DirEntry, err error) error) error {
	if err := fn(path, d, nil); err != nil || !d.IsDir() {
		if err == filepath.SkipDir && d.IsDir() {
			err = nil
		}
		return err
	}
	ents, err := ReadDir(path)
	if err != nil {
		if err = fn(path, d, err); err != nil {
			if err == filepath.SkipDir {
				err = nil
			}
			return err
		}
	}
	for _, e := range ents {
		if err := fs.walk(filepath.Join(path, e.Name()), e, fn); err != nil {
			if err == filepath.SkipDir {
				break
			}
			return err
		}
	}
	return nil
}

// ---- File methods ----

func (f *File) Name() string { return f.name }

func (f *File) Fd() uintptr {
	if f.real != nil {
		return f.real.Fd()
	}
	return uintptr(f.id)
}

func (f *File) Close() error {
	if f == nil {
		return ErrInvalid
	}
	if f.real != nil {
		return f.real.Close()
	}
	return f.fs.closeFile(f)
}

func (f *File) Read(b []byte) (int, error) {
	if f == nil {
		return 0, ErrInvalid
	}
	if f.real != nil {
		point("Read", f.name, false)
		return f.real.Read(b)
	}
	point("Read", f.ino.label(), false)
	return f.fs.read(f, b)
}

func (f *File) ReadAt(b []byte, off int64) (int, error) {
	if f == nil {
		return 0, ErrInvalid
	}
	if f.real != nil {
		point("ReadAt", f.name, false)
		return f.real.ReadAt(b, off)
	}
	point("ReadAt", f.ino.label(), false)
	return f.fs.readAt(f, b, off)
}

func (f *File) Write(b []byte) (int, error) {
	if f == nil {
		return 0, ErrInvalid
	}
	if f.real != nil {
		point("Write", f.name, true)
		return f.real.Write(b)
	}
	point("Write", f.ino.label(), true)
	return f.fs.write(f, b)
}

func (f *File) WriteString(s string) (int, error) { return f.Write([]byte(s)) }

func (f *File) WriteAt(b []byte, off int64) (int, error) {
	if f == nil {
		return 0, ErrInvalid
	}
	if f.real != nil {
		point("WriteAt", f.name, true)
		return f.real.WriteAt(b, off)
	}
	point("WriteAt", f.ino.label(), true)
	return f.fs.writeAt(f, b, off)
}

func (f *File) Seek(offset int64, whence int) (int64, error) {
	if f == nil {
		return 0, ErrInvalid
	}
	if f.real != nil {
		return f.real.Seek(offset, whence)
	}
	return f.fs.seek(f, offset, whence)
}

func (f *File) Stat() (FileInfo, error) {
	if f == nil {
		return nil, ErrInvalid
	}
	if f.real != nil {
		point("File.Stat", f.name, false)
		return f.real.Stat()
	}
	point("File.Stat", f.ino.label(), false)
	return f.fs.fstat(f)
}

func (f *File) Sync() error {
	if f == nil {
		return ErrInvalid
	}
	if f.real != nil {
		return f.real.Sync()
	}
	return f.fs.fsync(f)
}

func (f *File) Truncate(size int64) error {
	if f == nil {
		return ErrInvalid
	}
	if f.real != nil {
		point("File.Truncate", f.name, true)
		return f.real.Truncate(size)
	}
	point("File.Truncate", f.ino.label(), true)
	return f.fs.ftruncate(f, size)
}

var (
	errENOENT = syscall.ENOENT
	errEBADF  = syscall.EBADF
	errEISDIR = syscall.EISDIR
	errEEXIST = syscall.EEXIST
	errENOTEM = syscall.ENOTEMPTY
	errEINVAL = syscall.EINVAL
	errENOTDI = syscall.ENOTDIR
	errEIO    = syscall.EIO
)
