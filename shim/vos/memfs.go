package vos

import (
	"crypto/sha256"
	"encoding/binary"
	"errors"
	"fmt"
	"io"
	"os"
	"path/filepath"
	"runtime"
	"sort"
	"strings"
	"sync"
	"time"
)

// MutKind enumerates the mutations MemFS logs.
type MutKind uint8

const (
	MCreate MutKind = iota + 1 // new inode Ino bound to Path
	MWrite                     // Data written to inode Ino at Off
	MTrunc                     // inode Ino resized to Size
	MRename                    // Path -> Path2 (replacing Path2)
	MRemove                    // Path unbound
	MMkdir                     // directory Path created
	MRmdir                     // directory Path removed
)

func (k MutKind) String() string {
	return [...]string{"?", "create", "write", "trunc", "rename", "remove", "mkdir", "rmdir"}[k]
}

// Mut is one logged mutation. The log is sufficient to rebuild the directory
// image after any prefix of the mutations (and with the last write torn at
// any byte), which is how crash images are produced.
type Mut struct {
	Kind  MutKind
	Ino   int
	Path  string
	Path2 string
	Off   int64
	Data  []byte
	Size  int64
	Tag   int    // harness-defined: index of the store-level operation in flight
	Site  string // repository function that issued the call
}

func (m Mut) String() string {
	switch m.Kind {
	case MCreate:
		return fmt.Sprintf("create %s (ino %d) @%s", m.Path, m.Ino, m.Site)
	case MWrite:
		return fmt.Sprintf("write %s ino %d off %d len %d @%s", m.Path, m.Ino, m.Off, len(m.Data), m.Site)
	case MTrunc:
		return fmt.Sprintf("trunc %s ino %d size %d @%s", m.Path, m.Ino, m.Size, m.Site)
	case MRename:
		return fmt.Sprintf("rename %s -> %s @%s", m.Path, m.Path2, m.Site)
	case MRemove:
		return fmt.Sprintf("remove %s @%s", m.Path, m.Site)
	case MMkdir:
		return fmt.Sprintf("mkdir %s @%s", m.Path, m.Site)
	case MRmdir:
		return fmt.Sprintf("rmdir %s @%s", m.Path, m.Site)
	}
	return "?"
}

type inode struct {
	id   int
	data []byte
	path string // last path bound (label only)
}

func (i *inode) label() string { return fmt.Sprintf("ino:%d", i.id) }

// LedgerEvent records a descriptor misuse.
type LedgerEvent struct {
	What string // "double-close", "use-after-close"
	Name string
	ID   int
	Site string
}

// MemFS is an in-memory file system with Linux semantics for everything
// go-storethehash relies on (DESIGN.md appendix B).
type MemFS struct {
	mu      sync.Mutex
	names   map[string]*inode
	dirs    map[string]struct{}
	nextIno int
	tmpCtr  int

	logOn bool
	sites bool
	log   []Mut
	tag   int
	base  *Image // image when logging was switched on

	handles []*File
	nextFD  int
	events  []LedgerEvent
	nOps    int64
	// fault injection: the call that makes nOps equal to faultAt fails with
	// EIO and has no effect
	faultAt  int64
	faultHit string
}

// NewMemFS returns an empty file system containing only the root directory.
func NewMemFS() *MemFS {
	return &MemFS{
		names: make(map[string]*inode),
		dirs:  map[string]struct{}{"/": {}},
	}
}

func cleanPath(p string) string {
	if !strings.HasPrefix(p, "/") {
		p = "/" + p
	}
	return filepath.Clean(p)
}

// ---- logging / introspection ----

// StartLog clears the mutation log, remembers the current image as the base
// for crash-image reconstruction and starts logging. If sites is true every
// mutation also records the repository function that issued it.
func (fs *MemFS) StartLog(sites bool) {
	fs.mu.Lock()
	defer fs.mu.Unlock()
	fs.log = nil
	fs.logOn = true
	fs.sites = sites
	img := fs.imageLocked(true)
	fs.base = &img
}

// SetTag labels subsequent mutations (the harness passes the index of the
// store-level operation it is about to run).
func (fs *MemFS) SetTag(tag int) {
	fs.mu.Lock()
	fs.tag = tag
	fs.mu.Unlock()
}

// Log returns the mutation log (shared slice; do not modify).
func (fs *MemFS) Log() []Mut {
	fs.mu.Lock()
	defer fs.mu.Unlock()
	return fs.log
}

// LogLen returns the number of logged mutations.
func (fs *MemFS) LogLen() int {
	fs.mu.Lock()
	defer fs.mu.Unlock()
	return len(fs.log)
}

// FailOp arms fault injection: the n-th file-system call from now on (n >= 1)
// fails with EIO and has no effect, unless it is a Close or Sync (those always
// succeed; such an n injects nothing). n = 0 disarms.
func (fs *MemFS) FailOp(n int64) {
	fs.mu.Lock()
	defer fs.mu.Unlock()
	fs.faultHit = ""
	if n <= 0 {
		fs.faultAt = 0
		return
	}
	fs.faultAt = fs.nOps + n
}

// FaultHit describes the call that was failed ("" if none was yet).
func (fs *MemFS) FaultHit() string {
	fs.mu.Lock()
	defer fs.mu.Unlock()
	return fs.faultHit
}

func (fs *MemFS) fault(op, path string) error {
	if fs.faultAt == 0 || fs.nOps != fs.faultAt {
		return nil
	}
	fs.faultHit = op + " " + path + " @" + callerSite()
	return &PathError{Op: op, Path: path, Err: errEIO}
}

// Ops returns the number of file-system calls served.
func (fs *MemFS) Ops() int64 {
	fs.mu.Lock()
	defer fs.mu.Unlock()
	return fs.nOps
}

func (fs *MemFS) record(m Mut) {
	if !fs.logOn {
		return
	}
	m.Tag = fs.tag
	if fs.sites {
		m.Site = callerSite()
	}
	fs.log = append(fs.log, m)
}

func callerSite() string {
	var pcs [24]uintptr
	n := runtime.Callers(3, pcs[:])
	frames := runtime.CallersFrames(pcs[:n])
	var out string
	found := 0
	for {
		fr, more := frames.Next()
		fn := fr.Function
		if strings.Contains(fn, "go-storethehash/store") || strings.HasPrefix(fn, "github.com/ipld/go-storethehash.") {
			if i := strings.LastIndex(fn, "/"); i >= 0 {
				fn = fn[i+1:]
			}
			if found == 0 {
				out = fn
			} else {
				out += "<" + fn
			}
			found++
			if found == 2 {
				return out
			}
		}
		if !more {
			break
		}
	}
	return out
}

// Image is a deep copy of the namespace: file contents by path plus the set of
// directories. Inos maps path to inode number when captured with inode
// identity (needed only as the base for log replay).
type Image struct {
	Files map[string][]byte
	Dirs  []string
	Inos  map[string]int
}

func (fs *MemFS) imageLocked(withInos bool) Image {
	img := Image{Files: make(map[string][]byte, len(fs.names))}
	if withInos {
		img.Inos = make(map[string]int, len(fs.names))
	}
	for p, ino := range fs.names {
		img.Files[p] = append([]byte(nil), ino.data...)
		if withInos {
			img.Inos[p] = ino.id
		}
	}
	for d := range fs.dirs {
		img.Dirs = append(img.Dirs, d)
	}
	sort.Strings(img.Dirs)
	return img
}

// Image returns a deep copy of the current namespace.
func (fs *MemFS) Image() Image {
	fs.mu.Lock()
	defer fs.mu.Unlock()
	return fs.imageLocked(false)
}

// Base returns the image captured by StartLog.
func (fs *MemFS) Base() *Image {
	fs.mu.Lock()
	defer fs.mu.Unlock()
	return fs.base
}

// FromImage builds a fresh file system holding a copy of img.
func FromImage(img Image) *MemFS {
	fs := NewMemFS()
	for _, d := range img.Dirs {
		fs.dirs[d] = struct{}{}
	}
	paths := make([]string, 0, len(img.Files))
	for p := range img.Files {
		paths = append(paths, p)
	}
	sort.Strings(paths)
	for _, p := range paths {
		fs.nextIno++
		fs.names[p] = &inode{id: fs.nextIno, data: append([]byte(nil), img.Files[p]...), path: p}
	}
	return fs
}

// Digest is a content hash of an image (paths, contents, directories).
func (img Image) Digest() [32]byte {
	h := sha256.New()
	paths := make([]string, 0, len(img.Files))
	for p := range img.Files {
		paths = append(paths, p)
	}
	sort.Strings(paths)
	var lb [8]byte
	for _, p := range paths {
		binary.LittleEndian.PutUint64(lb[:], uint64(len(p)))
		h.Write(lb[:])
		h.Write([]byte(p))
		binary.LittleEndian.PutUint64(lb[:], uint64(len(img.Files[p])))
		h.Write(lb[:])
		h.Write(img.Files[p])
	}
	for _, d := range img.Dirs {
		h.Write([]byte("D" + d + "\x00"))
	}
	var out [32]byte
	copy(out[:], h.Sum(nil))
	return out
}

// Digest hashes the current namespace.
func (fs *MemFS) Digest() [32]byte { return fs.Image().Digest() }

// CrashImage rebuilds the namespace as it was after the first n mutations of
// log were applied to base; if torn >= 0 the n-th mutation (index n, which
// must be a write) is additionally applied with only its first torn bytes.
func CrashImage(base *Image, log []Mut, n int, torn int) Image {
	type ino struct{ data []byte }
	inos := make(map[int]*ino)
	names := make(map[string]int)
	dirs := make(map[string]struct{})
	for _, d := range base.Dirs {
		dirs[d] = struct{}{}
	}
	for p, id := range base.Inos {
		inos[id] = &ino{data: append([]byte(nil), base.Files[p]...)}
		names[p] = id
	}
	apply := func(m Mut, tornLen int) {
		switch m.Kind {
		case MCreate:
			inos[m.Ino] = &ino{}
			names[m.Path] = m.Ino
		case MWrite:
			in := inos[m.Ino]
			if in == nil {
				return
			}
			data := m.Data
			if tornLen >= 0 && tornLen < len(data) {
				data = data[:tornLen]
			}
			end := m.Off + int64(len(data))
			if int64(len(in.data)) < end {
				in.data = append(in.data, make([]byte, end-int64(len(in.data)))...)
			}
			copy(in.data[m.Off:], data)
		case MTrunc:
			in := inos[m.Ino]
			if in == nil {
				return
			}
			if int64(len(in.data)) > m.Size {
				in.data = in.data[:m.Size]
			} else {
				in.data = append(in.data, make([]byte, m.Size-int64(len(in.data)))...)
			}
		case MRename:
			if id, ok := names[m.Path]; ok {
				delete(names, m.Path)
				names[m.Path2] = id
			}
		case MRemove:
			delete(names, m.Path)
		case MMkdir:
			dirs[m.Path] = struct{}{}
		case MRmdir:
			delete(dirs, m.Path)
		}
	}
	for i := 0; i < n && i < len(log); i++ {
		apply(log[i], -1)
	}
	if torn >= 0 && n < len(log) && log[n].Kind == MWrite {
		apply(log[n], torn)
	}
	img := Image{Files: make(map[string][]byte, len(names))}
	for p, id := range names {
		img.Files[p] = inos[id].data
	}
	for d := range dirs {
		img.Dirs = append(img.Dirs, d)
	}
	sort.Strings(img.Dirs)
	return img
}

// Handle describes a descriptor for the resource ledger.
type Handle struct {
	ID     int
	Name   string
	Site   string
	Closed bool
}

// OpenHandles lists descriptors that were opened and not yet closed.
func (fs *MemFS) OpenHandles() []Handle {
	fs.mu.Lock()
	defer fs.mu.Unlock()
	var out []Handle
	for _, h := range fs.handles {
		if !h.closed {
			out = append(out, Handle{h.id, h.name, h.site, false})
		}
	}
	return out
}

// HandleCount returns (ever opened, currently open).
func (fs *MemFS) HandleCount() (int, int) {
	fs.mu.Lock()
	defer fs.mu.Unlock()
	open := 0
	for _, h := range fs.handles {
		if !h.closed {
			open++
		}
	}
	return len(fs.handles), open
}

// Events returns descriptor misuse events (double close, use after close).
func (fs *MemFS) Events() []LedgerEvent {
	fs.mu.Lock()
	defer fs.mu.Unlock()
	return append([]LedgerEvent(nil), fs.events...)
}

// IsClosed reports whether f has been closed (ledger query; no side effects).
func (f *File) IsClosed() bool {
	if f.real != nil {
		return false
	}
	f.fs.mu.Lock()
	defer f.fs.mu.Unlock()
	return f.closed
}

// ID returns the descriptor number MemFS assigned to f.
func (f *File) ID() int { return f.id }

// TrackSites makes MemFS remember the opening call site of each descriptor.
func (fs *MemFS) TrackSites(on bool) {
	fs.mu.Lock()
	fs.sites = on
	fs.mu.Unlock()
}

// ---- file info ----

type memInfo struct {
	name string
	size int64
	dir  bool
}

func (i memInfo) Name() string { return i.name }
func (i memInfo) Size() int64  { return i.size }
func (i memInfo) Mode() FileMode {
	if i.dir {
		return os.ModeDir | 0755
	}
	return 0644
}
func (i memInfo) ModTime() time.Time { return time.Time{} }
func (i memInfo) IsDir() bool        { return i.dir }
func (i memInfo) Sys() any           { return nil }

// ---- namespace operations ----

func (fs *MemFS) parentExists(p string) bool {
	_, ok := fs.dirs[filepath.Dir(p)]
	return ok
}

func (fs *MemFS) openFile(name string, flag int, perm FileMode) (*File, error) {
	p := cleanPath(name)
	fs.mu.Lock()
	defer fs.mu.Unlock()
	fs.nOps++
	if err := fs.fault("open", name); err != nil {
		return nil, err
	}
	if _, isDir := fs.dirs[p]; isDir {
		if flag&(O_WRONLY|O_RDWR) != 0 {
			return nil, &PathError{Op: "open", Path: name, Err: errEISDIR}
		}
		return nil, &PathError{Op: "open", Path: name, Err: errEISDIR}
	}
	ino, ok := fs.names[p]
	if !ok {
		if flag&O_CREATE == 0 || !fs.parentExists(p) {
			return nil, &PathError{Op: "open", Path: name, Err: errENOENT}
		}
		fs.nextIno++
		ino = &inode{id: fs.nextIno, path: p}
		fs.names[p] = ino
		fs.record(Mut{Kind: MCreate, Ino: ino.id, Path: p})
	} else {
		if flag&O_CREATE != 0 && flag&O_EXCL != 0 {
			return nil, &PathError{Op: "open", Path: name, Err: errEEXIST}
		}
		if flag&O_TRUNC != 0 && flag&(O_WRONLY|O_RDWR) != 0 && len(ino.data) != 0 {
			ino.data = nil
			fs.record(Mut{Kind: MTrunc, Ino: ino.id, Path: p, Size: 0})
		}
	}
	fs.nextFD++
	f := &File{fs: fs, ino: ino, name: name, flag: flag, id: fs.nextFD}
	if fs.sites {
		f.site = callerSite()
	}
	fs.handles = append(fs.handles, f)
	return f, nil
}

func (fs *MemFS) stat(name string) (FileInfo, error) {
	p := cleanPath(name)
	fs.mu.Lock()
	defer fs.mu.Unlock()
	fs.nOps++
	if err := fs.fault("stat", name); err != nil {
		return nil, err
	}
	if _, ok := fs.dirs[p]; ok {
		return memInfo{name: filepath.Base(p), dir: true}, nil
	}
	ino, ok := fs.names[p]
	if !ok {
		return nil, &PathError{Op: "stat", Path: name, Err: errENOENT}
	}
	return memInfo{name: filepath.Base(p), size: int64(len(ino.data))}, nil
}

func (fs *MemFS) hasChildren(dir string) bool {
	pre := dir
	if !strings.HasSuffix(pre, "/") {
		pre += "/"
	}
	for p := range fs.names {
		if strings.HasPrefix(p, pre) {
			return true
		}
	}
	for d := range fs.dirs {
		if d != dir && strings.HasPrefix(d, pre) {
			return true
		}
	}
	return false
}

func (fs *MemFS) remove(name string) error {
	p := cleanPath(name)
	fs.mu.Lock()
	defer fs.mu.Unlock()
	fs.nOps++
	if err := fs.fault("remove", name); err != nil {
		return err
	}
	if _, ok := fs.dirs[p]; ok {
		if fs.hasChildren(p) {
			return &PathError{Op: "remove", Path: name, Err: errENOTEM}
		}
		delete(fs.dirs, p)
		fs.record(Mut{Kind: MRmdir, Path: p})
		return nil
	}
	if _, ok := fs.names[p]; !ok {
		return &PathError{Op: "remove", Path: name, Err: errENOENT}
	}
	delete(fs.names, p)
	fs.record(Mut{Kind: MRemove, Path: p})
	return nil
}

func (fs *MemFS) removeAll(name string) error {
	p := cleanPath(name)
	fs.mu.Lock()
	defer fs.mu.Unlock()
	fs.nOps++
	if err := fs.fault("removeall", name); err != nil {
		return err
	}
	pre := p + "/"
	var files, dirs []string
	for f := range fs.names {
		if f == p || strings.HasPrefix(f, pre) {
			files = append(files, f)
		}
	}
	for d := range fs.dirs {
		if d == p || strings.HasPrefix(d, pre) {
			dirs = append(dirs, d)
		}
	}
	sort.Strings(files)
	sort.Sort(sort.Reverse(sort.StringSlice(dirs)))
	for _, f := range files {
		delete(fs.names, f)
		fs.record(Mut{Kind: MRemove, Path: f})
	}
	for _, d := range dirs {
		delete(fs.dirs, d)
		fs.record(Mut{Kind: MRmdir, Path: d})
	}
	return nil
}

func (fs *MemFS) rename(oldpath, newpath string) error {
	op, np := cleanPath(oldpath), cleanPath(newpath)
	fs.mu.Lock()
	defer fs.mu.Unlock()
	fs.nOps++
	if err := fs.fault("rename", oldpath); err != nil {
		return err
	}
	if _, ok := fs.dirs[op]; ok {
		return &LinkError{Op: "rename", Old: oldpath, New: newpath, Err: errors.New("vos: directory rename not supported")}
	}
	ino, ok := fs.names[op]
	if !ok || !fs.parentExists(np) {
		return &LinkError{Op: "rename", Old: oldpath, New: newpath, Err: errENOENT}
	}
	if _, isDir := fs.dirs[np]; isDir {
		return &LinkError{Op: "rename", Old: oldpath, New: newpath, Err: errEEXIST}
	}
	if op == np {
		return nil
	}
	delete(fs.names, op)
	fs.names[np] = ino
	ino.path = np
	fs.record(Mut{Kind: MRename, Path: op, Path2: np})
	return nil
}

func (fs *MemFS) truncate(name string, size int64) error {
	p := cleanPath(name)
	fs.mu.Lock()
	defer fs.mu.Unlock()
	fs.nOps++
	if err := fs.fault("truncate", name); err != nil {
		return err
	}
	ino, ok := fs.names[p]
	if !ok {
		if _, isDir := fs.dirs[p]; isDir {
			return &PathError{Op: "truncate", Path: name, Err: errEISDIR}
		}
		return &PathError{Op: "truncate", Path: name, Err: errENOENT}
	}
	if size < 0 {
		return &PathError{Op: "truncate", Path: name, Err: errEINVAL}
	}
	fs.resize(ino, size, p)
	return nil
}

func (fs *MemFS) resize(ino *inode, size int64, p string) {
	if int64(len(ino.data)) == size {
		return
	}
	if int64(len(ino.data)) > size {
		ino.data = ino.data[:size:size]
	} else {
		ino.data = append(ino.data, make([]byte, size-int64(len(ino.data)))...)
	}
	fs.record(Mut{Kind: MTrunc, Ino: ino.id, Path: p, Size: size})
}

func (fs *MemFS) mkdir(name string, all bool) error {
	p := cleanPath(name)
	fs.mu.Lock()
	defer fs.mu.Unlock()
	fs.nOps++
	if err := fs.fault("mkdir", name); err != nil {
		return err
	}
	if _, ok := fs.names[p]; ok {
		return &PathError{Op: "mkdir", Path: name, Err: errENOTDI}
	}
	if _, ok := fs.dirs[p]; ok {
		if all {
			return nil
		}
		return &PathError{Op: "mkdir", Path: name, Err: errEEXIST}
	}
	if !all {
		if !fs.parentExists(p) {
			return &PathError{Op: "mkdir", Path: name, Err: errENOENT}
		}
		fs.dirs[p] = struct{}{}
		fs.record(Mut{Kind: MMkdir, Path: p})
		return nil
	}
	var todo []string
	for d := p; ; d = filepath.Dir(d) {
		if _, ok := fs.dirs[d]; ok {
			break
		}
		if _, ok := fs.names[d]; ok {
			return &PathError{Op: "mkdir", Path: name, Err: errENOTDI}
		}
		todo = append(todo, d)
		if d == "/" {
			break
		}
	}
	for i := len(todo) - 1; i >= 0; i-- {
		fs.dirs[todo[i]] = struct{}{}
		fs.record(Mut{Kind: MMkdir, Path: todo[i]})
	}
	return nil
}

func (fs *MemFS) mkdirTemp(dir, pattern string) (string, error) {
	d := cleanPath(dir)
	fs.mu.Lock()
	defer fs.mu.Unlock()
	fs.nOps++
	if err := fs.fault("mkdirtemp", dir); err != nil {
		return "", err
	}
	if _, ok := fs.dirs[d]; !ok {
		return "", &PathError{Op: "mkdirtemp", Path: dir, Err: errENOENT}
	}
	for {
		fs.tmpCtr++
		suffix := fmt.Sprintf("%09d", fs.tmpCtr)
		var base string
		if i := strings.LastIndex(pattern, "*"); i >= 0 {
			base = pattern[:i] + suffix + pattern[i+1:]
		} else {
			base = pattern + suffix
		}
		p := filepath.Join(d, base)
		if _, ok := fs.dirs[p]; ok {
			continue
		}
		if _, ok := fs.names[p]; ok {
			continue
		}
		fs.dirs[p] = struct{}{}
		fs.record(Mut{Kind: MMkdir, Path: p})
		return filepath.Join(dir, base), nil
	}
}

// ---- descriptor operations ----

func (fs *MemFS) usable(f *File, op string) error {
	if f.closed {
		fs.events = append(fs.events, LedgerEvent{"use-after-close:" + op, f.name, f.id, callerSite()})
		return &PathError{Op: op, Path: f.name, Err: ErrClosed}
	}
	return nil
}

func (fs *MemFS) closeFile(f *File) error {
	fs.mu.Lock()
	defer fs.mu.Unlock()
	fs.nOps++
	if f.closed {
		fs.events = append(fs.events, LedgerEvent{"double-close", f.name, f.id, callerSite()})
		return &PathError{Op: "close", Path: f.name, Err: ErrClosed}
	}
	f.closed = true
	return nil
}

func (fs *MemFS) read(f *File, b []byte) (int, error) {
	fs.mu.Lock()
	defer fs.mu.Unlock()
	fs.nOps++
	if err := fs.fault("read", f.name); err != nil {
		return 0, err
	}
	if err := fs.usable(f, "read"); err != nil {
		return 0, err
	}
	if f.flag&O_WRONLY != 0 {
		return 0, &PathError{Op: "read", Path: f.name, Err: errEBADF}
	}
	if len(b) == 0 {
		return 0, nil
	}
	if f.pos >= int64(len(f.ino.data)) {
		return 0, io.EOF
	}
	n := copy(b, f.ino.data[f.pos:])
	f.pos += int64(n)
	return n, nil
}

func (fs *MemFS) readAt(f *File, b []byte, off int64) (int, error) {
	fs.mu.Lock()
	defer fs.mu.Unlock()
	fs.nOps++
	if err := fs.fault("read", f.name); err != nil {
		return 0, err
	}
	if err := fs.usable(f, "read"); err != nil {
		return 0, err
	}
	if f.flag&O_WRONLY != 0 {
		return 0, &PathError{Op: "read", Path: f.name, Err: errEBADF}
	}
	if off < 0 {
		return 0, &PathError{Op: "readat", Path: f.name, Err: errors.New("negative offset")}
	}
	if len(b) == 0 {
		return 0, nil
	}
	if off >= int64(len(f.ino.data)) {
		return 0, io.EOF
	}
	n := copy(b, f.ino.data[off:])
	if n < len(b) {
		return n, io.EOF
	}
	return n, nil
}

func (fs *MemFS) writable(f *File) bool { return f.flag&(O_WRONLY|O_RDWR) != 0 }

func (fs *MemFS) doWrite(f *File, b []byte, off int64) {
	end := off + int64(len(b))
	if int64(len(f.ino.data)) < end {
		f.ino.data = append(f.ino.data, make([]byte, end-int64(len(f.ino.data)))...)
	}
	copy(f.ino.data[off:], b)
	if fs.logOn {
		fs.record(Mut{Kind: MWrite, Ino: f.ino.id, Path: f.ino.path, Off: off, Data: append([]byte(nil), b...)})
	}
}

func (fs *MemFS) write(f *File, b []byte) (int, error) {
	fs.mu.Lock()
	defer fs.mu.Unlock()
	fs.nOps++
	if err := fs.fault("write", f.name); err != nil {
		return 0, err
	}
	if err := fs.usable(f, "write"); err != nil {
		return 0, err
	}
	if !fs.writable(f) {
		return 0, &PathError{Op: "write", Path: f.name, Err: errEBADF}
	}
	if len(b) == 0 {
		return 0, nil
	}
	off := f.pos
	if f.flag&O_APPEND != 0 {
		off = int64(len(f.ino.data))
	}
	fs.doWrite(f, b, off)
	f.pos = off + int64(len(b))
	return len(b), nil
}

var errWriteAtInAppendMode = errors.New("os: invalid use of WriteAt on file opened with O_APPEND")

func (fs *MemFS) writeAt(f *File, b []byte, off int64) (int, error) {
	fs.mu.Lock()
	defer fs.mu.Unlock()
	fs.nOps++
	if err := fs.fault("write", f.name); err != nil {
		return 0, err
	}
	if err := fs.usable(f, "write"); err != nil {
		return 0, err
	}
	if f.flag&O_APPEND != 0 {
		return 0, errWriteAtInAppendMode
	}
	if !fs.writable(f) {
		return 0, &PathError{Op: "write", Path: f.name, Err: errEBADF}
	}
	if off < 0 {
		return 0, &PathError{Op: "writeat", Path: f.name, Err: errors.New("negative offset")}
	}
	if len(b) == 0 {
		return 0, nil
	}
	fs.doWrite(f, b, off)
	return len(b), nil
}

func (fs *MemFS) seek(f *File, offset int64, whence int) (int64, error) {
	fs.mu.Lock()
	defer fs.mu.Unlock()
	if err := fs.usable(f, "seek"); err != nil {
		return 0, err
	}
	var base int64
	switch whence {
	case io.SeekStart:
	case io.SeekCurrent:
		base = f.pos
	case io.SeekEnd:
		base = int64(len(f.ino.data))
	default:
		return 0, &PathError{Op: "seek", Path: f.name, Err: errEINVAL}
	}
	if base+offset < 0 {
		return 0, &PathError{Op: "seek", Path: f.name, Err: errEINVAL}
	}
	f.pos = base + offset
	return f.pos, nil
}

func (fs *MemFS) fstat(f *File) (FileInfo, error) {
	fs.mu.Lock()
	defer fs.mu.Unlock()
	fs.nOps++
	if err := fs.fault("stat", f.name); err != nil {
		return nil, err
	}
	if err := fs.usable(f, "stat"); err != nil {
		return nil, err
	}
	return memInfo{name: filepath.Base(f.name), size: int64(len(f.ino.data))}, nil
}

func (fs *MemFS) fsync(f *File) error {
	fs.mu.Lock()
	defer fs.mu.Unlock()
	return fs.usable(f, "sync")
}

func (fs *MemFS) ftruncate(f *File, size int64) error {
	fs.mu.Lock()
	defer fs.mu.Unlock()
	fs.nOps++
	if err := fs.fault("truncate", f.name); err != nil {
		return err
	}
	if err := fs.usable(f, "truncate"); err != nil {
		return err
	}
	if !fs.writable(f) || size < 0 {
		return &PathError{Op: "truncate", Path: f.name, Err: errEINVAL}
	}
	fs.resize(f.ino, size, f.ino.path)
	return nil
}

// ---- direct access for oracles (no points, no ledger) ----

// ReadFileRaw returns a copy of the named file's content, bypassing points
// and the ledger. ok is false if the name does not exist.
func (fs *MemFS) ReadFileRaw(name string) ([]byte, bool) {
	fs.mu.Lock()
	defer fs.mu.Unlock()
	ino, ok := fs.names[cleanPath(name)]
	if !ok {
		return nil, false
	}
	return append([]byte(nil), ino.data...), true
}

// WriteFileRaw replaces the named file's content, bypassing points and the
// descriptor ledger (used by the harness to fabricate legacy stores or damage
// snapshots).
func (fs *MemFS) WriteFileRaw(name string, data []byte) {
	fs.mu.Lock()
	defer fs.mu.Unlock()
	p := cleanPath(name)
	ino, ok := fs.names[p]
	if !ok {
		fs.nextIno++
		ino = &inode{id: fs.nextIno, path: p}
		fs.names[p] = ino
		fs.record(Mut{Kind: MCreate, Ino: ino.id, Path: p})
	}
	// logged like any other mutation, so that crash images rebuilt from the
	// log contain what the harness itself did to the directory
	fs.record(Mut{Kind: MTrunc, Ino: ino.id, Path: p, Size: 0})
	ino.data = append([]byte(nil), data...)
	if len(data) > 0 {
		fs.record(Mut{Kind: MWrite, Ino: ino.id, Path: p, Off: 0, Data: append([]byte(nil), data...)})
	}
}

// RemoveRaw unbinds a name, bypassing points.
func (fs *MemFS) RemoveRaw(name string) {
	fs.mu.Lock()
	defer fs.mu.Unlock()
	p := cleanPath(name)
	if _, ok := fs.names[p]; ok {
		delete(fs.names, p)
		fs.record(Mut{Kind: MRemove, Path: p})
	}
}

// MkdirRaw creates a directory (and parents) without logging.
func (fs *MemFS) MkdirRaw(name string) {
	fs.mu.Lock()
	defer fs.mu.Unlock()
	for d := cleanPath(name); ; d = filepath.Dir(d) {
		fs.dirs[d] = struct{}{}
		if d == "/" {
			break
		}
	}
}

// Names lists all file paths, sorted.
func (fs *MemFS) Names() []string {
	fs.mu.Lock()
	defer fs.mu.Unlock()
	out := make([]string, 0, len(fs.names))
	for p := range fs.names {
		out = append(out, p)
	}
	sort.Strings(out)
	return out
}

// ---- directory listing (ReadDir, Glob, Walk) ----

type memDirEntry struct{ info memInfo }

func (e memDirEntry) Name() string { return e.info.name }
func (e memDirEntry) IsDir() bool  { return e.info.dir }
func (e memDirEntry) Type() FileMode {
	if e.info.dir {
		return os.ModeDir
	}
	return 0
}
func (e memDirEntry) Info() (FileInfo, error) { return e.info, nil }

// readDir lists the immediate children of a directory, sorted by name.
func (fs *MemFS) readDir(name string) ([]DirEntry, error) {
	p := cleanPath(name)
	fs.mu.Lock()
	defer fs.mu.Unlock()
	fs.nOps++
	if err := fs.fault("readdir", name); err != nil {
		return nil, err
	}
	if _, ok := fs.dirs[p]; !ok {
		if _, isFile := fs.names[p]; isFile {
			return nil, &PathError{Op: "readdir", Path: name, Err: errENOTDI}
		}
		return nil, &PathError{Op: "open", Path: name, Err: errENOENT}
	}
	var out []DirEntry
	for d := range fs.dirs {
		if d != p && filepath.Dir(d) == p {
			out = append(out, memDirEntry{memInfo{name: filepath.Base(d), dir: true}})
		}
	}
	for f, ino := range fs.names {
		if filepath.Dir(f) == p {
			out = append(out, memDirEntry{memInfo{name: filepath.Base(f), size: int64(len(ino.data))}})
		}
	}
	sort.Slice(out, func(i, j int) bool { return out[i].Name() < out[j].Name() })
	return out, nil
}

// allPaths returns every file and directory path, sorted.
func (fs *MemFS) allPaths() []string {
	fs.mu.Lock()
	defer fs.mu.Unlock()
	fs.nOps++
	out := make([]string, 0, len(fs.names)+len(fs.dirs))
	for p := range fs.names {
		out = append(out, p)
	}
	for d := range fs.dirs {
		out = append(out, d)
	}
	sort.Strings(out)
	return out
}
