// Package vfilepath replaces path/filepath in the repository under test (build
// overlay): the pure path functions are the standard ones, and the functions
// that read the file system (Glob, Walk, WalkDir) go through the vos shim, so
// that no directory scan escapes the in-memory file system, its scheduling
// points and its fault injection.
package vfilepath

import (
	"io/fs"
	"path/filepath"

	"github.com/ipld/go-storethehash/verifshim/vos"
)

const (
	Separator     = filepath.Separator
	ListSeparator = filepath.ListSeparator
)

var (
	ErrBadPattern = filepath.ErrBadPattern
	SkipDir       = filepath.SkipDir
	SkipAll       = filepath.SkipAll

	Abs        = filepath.Abs
	Base       = filepath.Base
	Clean      = filepath.Clean
	Dir        = filepath.Dir
	Ext        = filepath.Ext
	FromSlash  = filepath.FromSlash
	IsAbs      = filepath.IsAbs
	IsLocal    = filepath.IsLocal
	Join       = filepath.Join
	Match      = filepath.Match
	Rel        = filepath.Rel
	Split      = filepath.Split
	SplitList  = filepath.SplitList
	ToSlash    = filepath.ToSlash
	VolumeName = filepath.VolumeName
)

type WalkFunc = filepath.WalkFunc

func Glob(pattern string) ([]string, error) { return vos.Glob(pattern) }

func WalkDir(root string, fn fs.WalkDirFunc) error {
	return vos.WalkDir(root, func(path string, d vos.DirEntry, err error) error { return fn(path, d, err) })
}

func Walk(root string, fn WalkFunc) error {
	return vos.WalkDir(root, func(path string, d vos.DirEntry, err error) error {
		if err != nil || d == nil {
			return fn(path, nil, err)
		}
		info, ierr := d.Info()
		return fn(path, info, ierr)
	})
}

// EvalSymlinks: the in-memory file system has no symbolic links.
func EvalSymlinks(path string) (string, error) {
	if vos.Backend() == nil {
		return filepath.EvalSymlinks(path)
	}
	if _, err := vos.Stat(path); err != nil {
		return "", err
	}
	return filepath.Clean(path), nil
}
