// Package vsync is a drop-in replacement for the parts of package sync that
// go-storethehash uses. Every primitive wraps the real one (so the program's
// own synchronisation, and what the race detector sees of it, is unchanged)
// and announces each blocking acquire to the scheduler installed in vhook
// before performing it. With no scheduler installed it is exactly sync.
package vsync

import (
	"sync"

	"github.com/ipld/go-storethehash/verifshim/vhook"
)

type (
	WaitGroup = sync.WaitGroup
	Pool      = sync.Pool
	Map       = sync.Map
	Cond      = sync.Cond
	Locker    = sync.Locker
)

var NewCond = sync.NewCond

// Mutex mirrors sync.Mutex.
type Mutex struct {
	mu sync.Mutex
}

func (m *Mutex) Lock() {
	h := vhook.Get()
	if h != nil {
		h.Point(vhook.Op{Kind: vhook.KLock, Obj: m})
	}
	m.mu.Lock()
	if h != nil {
		h.Acquired(m, true)
	}
}

func (m *Mutex) TryLock() bool {
	h := vhook.Get()
	if h != nil {
		h.Point(vhook.Op{Kind: vhook.KTryLock, Obj: m})
	}
	ok := m.mu.TryLock()
	if ok && h != nil {
		h.Acquired(m, true)
	}
	return ok
}

func (m *Mutex) Unlock() {
	if h := vhook.Get(); h != nil {
		h.Released(m, true)
	}
	m.mu.Unlock()
}

// RWMutex mirrors sync.RWMutex.
type RWMutex struct {
	mu sync.RWMutex
}

func (m *RWMutex) Lock() {
	h := vhook.Get()
	if h != nil {
		h.Point(vhook.Op{Kind: vhook.KLock, Obj: m})
	}
	m.mu.Lock()
	if h != nil {
		h.Acquired(m, true)
	}
}

func (m *RWMutex) Unlock() {
	if h := vhook.Get(); h != nil {
		h.Released(m, true)
	}
	m.mu.Unlock()
}

func (m *RWMutex) RLock() {
	h := vhook.Get()
	if h != nil {
		h.Point(vhook.Op{Kind: vhook.KRLock, Obj: m})
	}
	m.mu.RLock()
	if h != nil {
		h.Acquired(m, false)
	}
}

func (m *RWMutex) RUnlock() {
	if h := vhook.Get(); h != nil {
		h.Released(m, false)
	}
	m.mu.RUnlock()
}

func (m *RWMutex) TryLock() bool {
	h := vhook.Get()
	if h != nil {
		h.Point(vhook.Op{Kind: vhook.KTryLock, Obj: m})
	}
	ok := m.mu.TryLock()
	if ok && h != nil {
		h.Acquired(m, true)
	}
	return ok
}

func (m *RWMutex) TryRLock() bool {
	h := vhook.Get()
	if h != nil {
		h.Point(vhook.Op{Kind: vhook.KTryLock, Obj: m})
	}
	ok := m.mu.TryRLock()
	if ok && h != nil {
		h.Acquired(m, false)
	}
	return ok
}

type rlocker RWMutex

func (r *rlocker) Lock()   { (*RWMutex)(r).RLock() }
func (r *rlocker) Unlock() { (*RWMutex)(r).RUnlock() }

func (m *RWMutex) RLocker() Locker { return (*rlocker)(m) }

// Once mirrors sync.Once; its internal mutex is a scheduling point like any
// other, so two racing Do calls are explored in both orders.
type Once struct {
	m    Mutex
	done bool
}

func (o *Once) Do(f func()) {
	o.m.Lock()
	defer o.m.Unlock()
	if !o.done {
		defer func() { o.done = true }()
		f()
	}
}
